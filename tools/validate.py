#!/usr/bin/env python3
"""Validate MANIFEST.json and evidence files against the given schemas."""
import json, sys, glob
try:
    import jsonschema
except ImportError:
    sys.path.insert(0, '/opt/veriftools/pyvenv/lib/python3.11/site-packages')
    import jsonschema
ok = True
def check(path, schema):
    global ok
    try:
        jsonschema.validate(json.load(open(path)), json.load(open(schema)))
        print("ok  ", path)
    except Exception as e:
        ok = False
        print("FAIL", path, str(e)[:300])
check('/verif/MANIFEST.json', '/root/.vp/MANIFEST.schema.json')
for f in sorted(glob.glob('/verif/evidence/*.json')):
    check(f, '/root/.vp/EVIDENCE.schema.json')
sys.exit(0 if ok else 1)
