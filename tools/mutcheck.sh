#!/bin/bash
# usage: tools/mutcheck.sh <patch.diff> <property> [tier] -- runs one check against a scratch worktree of /repo with the patch applied
set -u
patch="$1"; prop="$2"; tier="${3:-quick}"
id="mr-$$-$(basename "$(dirname "$patch")")"
wt="/tmp/mutrun/$id"
mkdir -p /tmp/mutrun
git -C /repo worktree add -q --detach "$wt" HEAD || exit 2
if ! git -C "$wt" apply "$patch"; then echo "PATCH DOES NOT APPLY"; git -C /repo worktree remove --force "$wt"; exit 2; fi
cd "$(dirname "$0")/.." || exit 2
VERIF_REPO="$wt" ./check "$prop" "$tier" > "/tmp/mutrun/$id.log" 2>&1
rc=$?
echo "== $patch $prop $tier -> exit $rc"
grep -E "^VIOLATION|^  kind=|^KNOWN|^HARNESS|quick:|thorough:" "/tmp/mutrun/$id.log" | cut -c1-300 | head -12
git -C /repo worktree remove --force "$wt"
exit $rc
