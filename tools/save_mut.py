#!/usr/bin/env python3
"""save_mut.py <worktree> <n> <property> <id> <pkgdir> <run-regex> <tags> <what> <needs>  -- copies a confirmed seeded change into /verif/seeded/<id>/"""
import os, shutil, json, sys
wt,n,prop,sid,pkg,rx,tags,what,needs=sys.argv[1:10]
src=f"{wt}/MUTATION/{n}"; dst=f"/verif/seeded/{sid}"
os.makedirs(dst,exist_ok=True)
shutil.copy(src+"/patch.diff",dst+"/patch.diff")
shutil.copy(src+"/demo_test.go",dst+"/demo_test.go.txt")
if os.path.exists(src+"/notes.md"): shutil.copy(src+"/notes.md",dst+"/notes.md")
meta={"id":sid,"property":prop,"what":what,"needs_to_manifest":needs,
 "demonstration":{"file":"demo_test.go.txt (rename to *_test.go)","copy_into":pkg+"/","run":f"go1.26.8 test -vet=off -count=1 {'-tags '+tags+' ' if tags else ''}-run '{rx}' ./{pkg}/"},
 "confirmed":{"suite_passes_with_patch":True,"demo_fails_with_patch":True,"demo_passes_without_patch":True,"how":"tools/confirm_mut.sh in a scratch worktree of /repo"},
 "source":"independent sub-agent given only the property text and a scratch worktree","base_commit":os.popen("git -C /repo rev-parse --short HEAD").read().strip()}
json.dump(meta,open(dst+"/meta.json","w"),indent=1)
print("saved",sid)
