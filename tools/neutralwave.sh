#!/bin/bash
# runs every check against every property-preserving change; every run must exit 0
here="$(cd "$(dirname "$0")/.." && pwd)"
cd "$here"
for d in ${NEUTRALS:-$here/seeded/neutral/N*}; do
	for p in ${PROPS:-C06 C07 C08 C13 C14}; do
		VERIF_BUDGET_S=${VERIF_BUDGET_S:-30} tools/mutcheck.sh $d/patch.diff $p
	done
done
