#!/bin/bash
# usage: confirm_mut.sh <worktree> <n> <pkgdir> <run-regex> [tags]
# confirms: demo passes without patch, fails with patch; (suite with patch is run separately)
export GOFLAGS=-mod=mod GOPROXY=off GOSUMDB=off GOTOOLCHAIN=local
wt="$1"; n="$2"; pkg="$3"; rx="$4"; tags="${5:-}"
cd "$wt" || exit 2
git checkout -q -- . ; 
cp MUTATION/$n/demo_test.go $pkg/zz_demo_${n}_test.go
t=()
[ -n "$tags" ] && t=(-tags "$tags")
go1.26.8 test -vet=off -count=1 "${t[@]}" -run "$rx" ./$pkg/ > /tmp/confirm_without.log 2>&1; r0=$?
git apply MUTATION/$n/patch.diff || { echo "patch does not apply"; exit 2; }
go1.26.8 test -vet=off -count=1 "${t[@]}" -run "$rx" ./$pkg/ > /tmp/confirm_with.log 2>&1; r1=$?
rm -f $pkg/zz_demo_${n}_test.go
if [ "${SUITE:-1}" = 1 ]; then go1.26.8 test -vet=off -count=1 ./attacks ./board ./chess ./debug ./eval ./heur ./movegen ./picker ./search ./transp ./uci > /tmp/confirm_suite.log 2>&1; r2=$?; else r2=skipped; fi
git checkout -q -- .
echo "$wt/$n: demo without patch rc=$r0 (want 0); with patch rc=$r1 (want !=0); suite with patch rc=$r2 (want 0)"
