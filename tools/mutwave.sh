#!/bin/bash
# usage: tools/mutwave.sh <seeded ids...>   -- runs each seeded change against the check of its property (quick tier)
cd /verif
for id in "$@"; do
	prop=$(python3 -c "import json;print(json.load(open('/verif/seeded/$id/meta.json'))['property'])")
	tools/mutcheck.sh /verif/seeded/$id/patch.diff $prop ${TIER:-quick}
done
