#!/bin/bash
# usage: tools/mutwave.sh <seeded ids...>   -- runs each seeded change against the check of its property
# (quick tier by default; TIER=thorough). Uses the copy of /verif this script lives in, so it can run from a snapshot.
here="$(cd "$(dirname "$0")/.." && pwd)"
cd "$here"
for id in "$@"; do
	prop=$(python3 -c "import json;print(json.load(open('$here/seeded/$id/meta.json'))['property'])")
	tools/mutcheck.sh "$here/seeded/$id/patch.diff" $prop ${TIER:-quick}
done
