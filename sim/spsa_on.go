//go:build spsa

package sim

import (
	"fmt"
	"strconv"
	"strings"

	"github.com/paulsonkoly/chess-3/params"
)

// SpsaBuild reports whether the engine was built with tunable parameters.
const SpsaBuild = true

func applySpsa(sets []SpsaSet) error {
	// start from the defaults every run: the parameters are process globals
	for _, r := range spsaRanges() {
		if err := params.Set(r.Name, r.Default); err != nil {
			return fmt.Errorf("resetting %s: %v", r.Name, err)
		}
	}
	for _, s := range sets {
		if err := params.Set(s.Name, s.Value); err != nil {
			return fmt.Errorf("setting %s=%d: %v", s.Name, s.Value, err)
		}
	}
	return nil
}

var spsaCache []spsaRange

// spsaRanges reads the tunables and their documented ranges from the UCI
// option text the engine itself prints (captured once, at defaults).
func spsaRanges() []spsaRange {
	if spsaCache != nil {
		return spsaCache
	}
	for _, l := range strings.Split(params.UCIOptions(), "\n") {
		f := strings.Fields(l)
		// option name X type spin default D min A max B
		if len(f) == 11 && f[0] == "option" {
			d, _ := strconv.Atoi(f[6])
			a, _ := strconv.Atoi(f[8])
			b, _ := strconv.Atoi(f[10])
			spsaCache = append(spsaCache, spsaRange{Name: f[2], Default: d, Min: a, Max: b})
		}
	}
	return spsaCache
}
