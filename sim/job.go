package sim

import (
	"crypto/sha256"
	"encoding/hex"
	"encoding/json"
	"fmt"
	"hash/fnv"
	"math/rand/v2"
	"strings"
)

// Job is what a worker process is asked to do.
type Job struct {
	Property      string  `json:"property"`
	Tier          string  `json:"tier"`
	Master        uint64  `json:"master"`
	Worker        int     `json:"worker"`
	Workers       int     `json:"workers"`
	BudgetS       float64 `json:"budget_s"`
	MaxRuns       int     `json:"max_runs"`                  // per worker, 0 = unlimited
	FirstRun      uint64  `json:"first_run"`                 // run indices start here
	NoBlockWriter bool    `json:"no_block_writer,omitempty"` // see simWriter.noblock
	NoLag         bool    `json:"no_lag,omitempty"`          // C14: drop the lag of generated cases (GUI reads every line at once)
	SkipK         int     `json:"skip_k,omitempty"`          // this worker's first SkipK runs were done by a predecessor process
	Replay        string  `json:"replay,omitempty"`          // replay this file instead of generating
	Hashes        bool    `json:"hashes,omitempty"`          // record a history hash per run (determinism self-test)
	CurPath       string  `json:"cur_path,omitempty"`        // sidecar announcing the run in progress
	Keep          bool    `json:"keep,omitempty"`            // keep full histories in the output (replay)
}

// RunCase is one generated (or replayed) scenario of any world.
type RunCase struct {
	Property      string          `json:"property"`
	Leg           string          `json:"leg"`
	Run           uint64          `json:"run"`
	Seed          uint64          `json:"seed"`
	Search        *SearchScenario `json:"search,omitempty"`
	UCI           *UCIScenario    `json:"uci,omitempty"`
	UCICfg        *UCIGenCfg      `json:"uci_cfg,omitempty"` // generation mode only: the policy configuration
	C14           []c14Case       `json:"c14,omitempty"`
	GridSlice     int             `json:"grid_slice,omitempty"`      // C14 grid leg: 1 + slice index
	C14Real       bool            `json:"c14_real,omitempty"`        // C14 cases run against the real search (parked inside its tree)
	UCITwins      int             `json:"uci_twins,omitempty"`       // C08: replay the session on this many further drivers sharing the bubble
	NoBlockWriter bool            `json:"no_block_writer,omitempty"` // the run used the non-blocking writer (see simWriter.noblock)
}

// RunResult is what one run produced.
type RunResult struct {
	Type       string           `json:"type"` // "run"
	Run        uint64           `json:"run"`
	Seed       uint64           `json:"seed"`
	Leg        string           `json:"leg"`
	Violations []Violation      `json:"violations,omitempty"`
	Case       *RunCase         `json:"case,omitempty"` // present when there are violations, when sampled, or on replay
	HistHash   string           `json:"hist_hash,omitempty"`
	SimUS      int64            `json:"sim_us"`
	History    []string         `json:"history,omitempty"`
	Stats      map[string]int64 `json:"stats,omitempty"`

	sigs       []uint64
	nontrivial bool
	abandoned  bool // the bubble ended with goroutines still blocked in it
	gridSlice  int  // C14: 1 + index of the boundary-grid slice this run covered (0 = none)
}

// WorkerSummary closes a worker's output.
type WorkerSummary struct {
	Type         string            `json:"type"` // "summary"
	Worker       int               `json:"worker"`
	Runs         int               `json:"runs"`
	Stats        map[string]int64  `json:"stats"`
	SimS         float64           `json:"sim_s"` // simulated seconds covered (float: C14 sessions cover decades each)
	WallS        float64           `json:"wall_s"`
	Sigs         []uint64          `json:"sigs"`     // distinct non-trivial run signatures (hashes)
	AllSigs      int               `json:"all_sigs"` // distinct signatures including trivial runs
	Samples      []json.RawMessage `json:"samples"`
	Inconclusive int               `json:"inconclusive"`
	Seeds        []uint64          `json:"seeds"` // first few seeds, for the record
	LegRuns      map[string]int    `json:"leg_runs"`
	// Restart: a run left goroutines behind in its bubble (deadlocked driver);
	// the process ends here and the driver starts a fresh one at NextK.
	GridSlices []int `json:"grid_slices,omitempty"` // C14: boundary-grid slices covered
	GridTotal  int   `json:"grid_total,omitempty"`
	Restart    bool  `json:"restart,omitempty"`
	NextK      int   `json:"next_k,omitempty"`
}

func sha(s ...string) string {
	h := sha256.New()
	for _, x := range s {
		h.Write([]byte(x))
		h.Write([]byte{0})
	}
	return hex.EncodeToString(h.Sum(nil)[:16])
}

func hash64(s string) uint64 {
	h := fnv.New64a()
	h.Write([]byte(s))
	return h.Sum64()
}

// legFor decides which world/leg run i of a property uses.
func legFor(property string, rng *rand.Rand, tier string) string {
	x := rng.IntN(100)
	switch property {
	case "C06":
		switch {
		case x < 62:
			return "search"
		case x < 72:
			return "search-tiny"
		case x < 75:
			// one search to depth 50+ on a root with a tiny tree: plies beyond 32,
			// iterations up to the ply cap (wave 12)
			return "search-deep"
		}
		return "uci-real"
	case "C07":
		switch {
		case x < 45:
			return "search"
		case x < 68:
			return "search-game"
		case x < 85:
			return "search-tiny"
		case x < 88:
			return "search-deep"
		}
		return "uci-real"
	case "C08":
		if x < 22 {
			return "uci-twin"
		}
		return "search"
	case "C13":
		switch {
		case x < 40:
			return "uci-stub"
		case x < 85:
			return "uci-real"
		default:
			return "uci-sweep"
		}
	case "C14":
		switch {
		case x < 22:
			return "c14-real"
		case x < 40:
			return "c14-grid"
		}
		return "c14"
	}
	return "search"
}

// generateCase draws the scenario of one run. For online-generated worlds
// (uci) only the configuration is drawn here; the steps are chosen while the
// run proceeds and recorded.
func generateCase(property string, tier string, run, seed uint64) (*RunCase, *rand.Rand) {
	rng := newRng(seed)
	rc := &RunCase{Property: property, Run: run, Seed: seed}
	rc.Leg = legFor(property, rng, tier)
	thorough := tier == "thorough"
	switch rc.Leg {
	case "search":
		rc.Search = genSearchScenario(rng, strings.ToLower(property), thorough)
	case "search-game":
		rc.Search = genSearchScenario(rng, "c07game", thorough)
	case "search-tiny":
		rc.Search = genSearchScenario(rng, "tiny", thorough)
	case "search-deep":
		rc.Search = genSearchScenario(rng, "deep", thorough)
	case "uci-stub", "uci-real", "uci-sweep", "uci-twin":
		cfg := drawUCIGenCfg(rng, rc.Leg == "uci-stub")
		if rc.Leg == "uci-twin" {
			cfg.NoClock, cfg.Timed, cfg.PStall = true, false, 0
			cfg.Spsa = false // tunables are process globals by design: two drivers in one process share them
			cfg.PQuitMid, cfg.PEOFMid = 0, 0
			cfg.Extremes = false
			rc.UCITwins = 1 + rng.IntN(2)
		}
		switch property {
		case "C06":
			cfg.Extremes = rng.IntN(2) == 0
			cfg.PQuitMid, cfg.PEOFMid = 0, 0
		case "C07":
			cfg.PQuitMid, cfg.PEOFMid = 0, 0
			cfg.Extremes = false
		}
		if rc.Leg == "uci-sweep" {
			// systematic placement of stop at poll j of every search of a fixed-shape session
			cfg.Stub = false
			cfg.SweepStop = 1 + int(run%97)
			if thorough {
				cfg.SweepStop = 1 + int(run%1009)
			}
			cfg.SweepCmd = pick(rng, []string{"stop", "stop", "quit", "eof", "isready", "ponderhit"})
			cfg.PQuitMid, cfg.PEOFMid, cfg.PStop = 0, 0, 0
		}
		rc.UCICfg = &cfg
		rc.UCI = &UCIScenario{World: "uci", Stub: cfg.Stub}
		if cfg.Hash || rng.IntN(3) == 0 {
			rc.UCI.TTBytes = pick(rng, []int{32000, 65536, 1 << 20})
		}
	case "c14", "c14-real", "c14-grid":
		n := 24
		if thorough {
			n = 60
		}
		cases := genC14Cases(rng, n, c14Boundary())
		if rc.Leg == "c14-grid" {
			// a slice of the boundary grid, chosen by the run index
			grid := c14Grid()
			cases = nil
			slices := (len(grid) + 29) / 30
			at := int(run % uint64(slices))
			rc.GridSlice = at + 1
			for i := 0; i < 30 && at*30+i < len(grid); i++ {
				cases = append(cases, grid[at*30+i])
			}
		}
		// keep the simulated time of one bubble well below the 292-year range of the clock
		var total int64
		for i, c := range cases {
			total += max(c.Own, c.MoveTime) + c.HitAfter/1000
			if total > 4_000_000_000_000 {
				cases = cases[:i]
				break
			}
		}
		if rc.Leg == "c14-real" {
			cases = realiseC14Cases(rng, cases)
			rc.C14Real = true
		}
		if n := len(cases); rc.Leg == "c14" && n > 0 && !cases[n-1].Ponder && rng.IntN(3) == 0 {
			// the session ends with the GUI going away while the last search runs
			c := &cases[n-1]
			lim := c.Own
			if c.MoveTime > 0 {
				lim = c.MoveTime
			}
			c.EOFAfterUS = 1 + rng.Int64N(min(lim*1000, 20_000_000))
			c.Noise, c.Lag, c.LagUS = nil, 0, 0
		}
		rc.C14 = cases
	}
	return rc, rng
}

func describeViolations(vs []Violation) string {
	var sb strings.Builder
	for _, v := range vs {
		fmt.Fprintf(&sb, "%s\n", v)
	}
	return sb.String()
}
