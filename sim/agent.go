package sim

import (
	"bytes"
	"encoding/hex"
	"fmt"
	"hash/crc32"
	"runtime"
	"runtime/debug"
	"strings"
	"sync"
	"time"

	"github.com/paulsonkoly/chess-3/board"
	"github.com/paulsonkoly/chess-3/chess"
	"github.com/paulsonkoly/chess-3/search"
)

// Limits are the depth/node/time limits of one search request.
type Limits struct {
	Depth     int   `json:"depth,omitempty"`      // 0 = not given (the property requires >= 1 when given)
	Nodes     int   `json:"nodes"`                // hard budget, -1 = not given
	SoftNodes int   `json:"soft_nodes,omitempty"` // 0 = none
	SoftTime  int64 `json:"soft_time,omitempty"`  // ms, 0 = none
}

// Quantum: the search executes Polls abort polls, then the simulated clock
// advances by CostUS microseconds (and, when engines are interleaved, the
// engine hands control back to the scheduler).
type Quantum struct {
	Polls  int   `json:"polls"`
	CostUS int64 `json:"cost_us"`
}

// Sched is a cyclic list of quanta. Empty = run freely, clock frozen.
type Sched struct {
	Quanta []Quantum `json:"quanta,omitempty"`
}

// Request is one call of search.Go as the simulator issues it.
type Request struct {
	Limits
	StopAtPoll      int  `json:"stop_at_poll"` // the stop channel closes just before poll j is evaluated (1-based); 0 = closed before Go; -1 = never
	Ponder          bool `json:"ponder,omitempty"`
	PonderHitAtPoll int  `json:"ponderhit_at_poll,omitempty"` // <=0 = never
	Output          bool `json:"output"`
	Debug           bool `json:"debug,omitempty"`
	// NoCounters: call Go without WithCounters, the way uci.Driver does; the
	// node count is then read from the info lines and from the poll observer.
	NoCounters bool `json:"no_counters,omitempty"`
	PollCap    int  `json:"poll_cap,omitempty"` // overrides the harness safety cap on polls for deliberately long searches
	// OptOrder != 0: the options are handed to Go in another order (a
	// permutation derived from this number); the order is not part of a request.
	OptOrder int `json:"opt_order,omitempty"`
}

// SearchResult is everything observable about one finished search.
type SearchResult struct {
	Score        int      `json:"score"`
	Move         string   `json:"move"`
	Ponder       string   `json:"ponder"`
	Nodes        int      `json:"nodes"`
	Polls        int      `json:"polls"`
	Aborted      bool     `json:"aborted"`
	Lines        []string `json:"lines,omitempty"`
	Digest       string   `json:"digest,omitempty"`
	Panic        string   `json:"panic,omitempty"`
	PanicStack   string   `json:"panic_stack,omitempty"`
	AbortPoll    int      `json:"abort_poll,omitempty"`   // first poll at which the abort condition was visible
	PollsAfter   int      `json:"polls_after,omitempty"`  // polls executed from then until return
	MaxNodesSeen int      `json:"max_nodes_seen"`         // largest Counters.Nodes observed at any poll
	Overspend    string   `json:"overspend,omitempty"`    // first observation of Counters.Nodes > hard budget
	LeftPonder   bool     `json:"left_ponder,omitempty"`  // a ponder search that took its ponderhit
	Capped       bool     `json:"capped,omitempty"`       // harness safety cap closed the stop channel
	SimElapsedUS int64    `json:"sim_elapsed_us"`         // fake time covered by this search
	BoardDiff    string   `json:"board_diff,omitempty"`   // non-empty: board differs after Go
	Interference string   `json:"interference,omitempty"` // non-empty: the board changed while this search was parked and others ran
	IterBounds   []int    `json:"-"`                      // poll index at which each info line was written
	lineNodes    []int    // Counters.Nodes when each line was written
}

const (
	// livenessPolls is the slack the harness grants between the abort condition
	// becoming visible and Go returning. The unwind is a few polls per ply of a
	// 64-ply stack; 1000 is an order of magnitude above that and no constant of
	// the implementation.
	livenessPolls = 1000
	// pollCap stops runaway searches (harness safety, not a verdict).
	pollCap = 600_000 // default; scenarios with an explicit hard node budget are bounded by that budget instead
)

type livenessAbort struct{ detail string }

// harnessKill unwinds a search the harness gave up waiting for, so that no
// goroutine is left behind in the bubble.
type harnessKill struct{}

// agent is the simulator's handle on one running search: it is driven from
// the yield hook at the top of every abort poll.
type agent struct {
	req          Request
	sched        Sched
	qi           int
	qleft        int
	coop         *coop
	stop         chan struct{}
	closed       bool
	hitCh        chan time.Time
	hit          bool
	extStop      bool // the stop channel belongs to somebody else (the UCI driver)
	board        *board.Board
	interference string
	lastNodes    int
	leftPonder   bool

	polls     int
	abortPoll int
	after     int
	maxNodes  int
	overspend string
	capped    bool
	pollCap   int
	lines     *lineRecorder
	onPoll    func(a *agent, s *search.Search, o *search.Options) // optional extra observer
}

// coop is the hand-off between an interleaved engine and the scheduler.
type coop struct {
	toSched chan struct{}
	resume  chan struct{}
	// resumeN, when non-nil, selects scheduler-driven mode (uci-world): the
	// search parks before a poll whenever its grant is used up and the
	// scheduler answers with the number of polls it may execute next.
	resumeN chan int
}

var (
	agentsMu sync.RWMutex
	agents   = map[*search.Search]*agent{}
)

func registerAgent(s *search.Search, a *agent) {
	agentsMu.Lock()
	agents[s] = a
	agentsMu.Unlock()
}

func unregisterAgent(s *search.Search) {
	agentsMu.Lock()
	delete(agents, s)
	agentsMu.Unlock()
}

func init() {
	search.SimYield = func(s *search.Search, o *search.Options) {
		agentsMu.RLock()
		a := agents[s]
		agentsMu.RUnlock()
		if a != nil {
			a.poll(s, o)
		}
	}
}

func (a *agent) closeStop() {
	if !a.closed {
		a.closed = true
		close(a.stop)
	}
}

func (a *agent) poll(s *search.Search, o *search.Options) {
	if a.coop != nil && a.coop.resumeN != nil {
		if a.qleft <= 0 {
			a.coop.toSched <- struct{}{}
			a.qleft = <-a.coop.resumeN
			if a.qleft < 0 {
				panic(harnessKill{})
			}
		}
		a.qleft--
	}
	a.polls++
	n := o.Counters.Nodes
	a.lastNodes = n
	if n > a.maxNodes {
		a.maxNodes = n
	}
	if a.req.Ponder && o.PonderHit == nil {
		a.leftPonder = true // the ponderhit has been taken: from here on this is an ordinary search
	}
	if a.req.Nodes >= 0 && (!a.req.Ponder || a.leftPonder) && n > a.req.Nodes && a.overspend == "" {
		a.overspend = fmt.Sprintf("Counters.Nodes=%d at poll %d exceeds the hard budget %d", n, a.polls, a.req.Nodes)
	}
	if a.req.StopAtPoll > 0 && a.polls == a.req.StopAtPoll {
		a.closeStop()
	}
	if a.req.Ponder && !a.hit && a.req.PonderHitAtPoll > 0 && a.polls == a.req.PonderHitAtPoll {
		a.hit = true
		a.hitCh <- time.Now()
	}
	if a.polls >= a.pollCap && !a.closed {
		a.capped = true
		a.closeStop()
	}
	if a.onPoll != nil {
		a.onPoll(a, s, o)
	}
	if !a.closed && a.extStop && o.Stop != nil {
		select {
		case <-o.Stop:
			a.closed = true
		default:
		}
	}
	if a.closed || s.VerifAborted() {
		if a.abortPoll == 0 {
			a.abortPoll = a.polls
		}
		if !s.VerifAborted() {
			// the engine may learn of the stop through a goroutine of its own (a
			// watcher relaying the channel into a flag): let it run. The bound
			// below is about polls the search executes although it could know.
			// In the search-world the stop was closed by this very goroutine: a
			// sleep on the simulated clock returns only once every other goroutine
			// of the bubble is blocked again, i.e. after the relay has run
			// (independent of how the OS schedules threads). In the uci-world the
			// search is parked while the driver closes the channel.
			if !a.extStop && a.after < 4 {
				time.Sleep(time.Nanosecond)
			} else {
				runtime.Gosched()
			}
		}
		a.after++
		if a.after > livenessPolls {
			panic(livenessAbort{fmt.Sprintf("abort condition visible since poll %d, search still polling %d polls later", a.abortPoll, a.after)})
		}
	}
	if len(a.sched.Quanta) > 0 && (a.coop == nil || a.coop.resumeN == nil) {
		a.qleft--
		if a.qleft <= 0 {
			q := a.sched.Quanta[a.qi%len(a.sched.Quanta)]
			if q.CostUS > 0 {
				time.Sleep(time.Duration(q.CostUS) * time.Microsecond)
			}
			if a.coop != nil {
				// while this engine is parked others run: its position object must
				// not change under it
				var snap board.VerifSnapshot
				if a.board != nil {
					snap = a.board.VerifSnapshot()
				}
				a.coop.toSched <- struct{}{}
				<-a.coop.resume
				if a.board != nil && a.interference == "" {
					if ok, what := snapshotsEqual(snap, a.board.VerifSnapshot()); !ok {
						a.interference = fmt.Sprintf("the position object of a parked search changed while another engine instance ran (%s, at poll %d)", what, a.polls)
					}
				}
			}
			a.qi++
			a.qleft = max(1, a.sched.Quanta[a.qi%len(a.sched.Quanta)].Polls)
		}
	}
}

// lineRecorder is the io.Writer handed to the search as Output; one Write is
// one reported line (the search formats each line with a single Fprintf).
type lineRecorder struct {
	a     *agent
	lines []string
	polls []int
	torn  string
}

func (r *lineRecorder) Write(p []byte) (int, error) {
	if len(p) == 0 || p[len(p)-1] != '\n' || bytes.Count(p, []byte{'\n'}) != 1 {
		if r.torn == "" {
			r.torn = fmt.Sprintf("%q", p)
		}
	}
	r.lines = append(r.lines, strings.TrimRight(string(p), "\n"))
	r.polls = append(r.polls, r.a.polls)
	return len(p), nil
}

// engineDigest digests everything a later search of this instance can depend
// on (hardware CRC32-C: the tables are megabytes and this runs per search).
func engineDigest(s *search.Search) string {
	h := crc32.New(crc32cTable)
	s.VerifDigest(h)
	return hex.EncodeToString(h.Sum(nil))
}

var crc32cTable = crc32.MakeTable(crc32.Castagnoli)

// wantDigest switches the per-search state digest on (twin comparisons need
// it, abort sweeps do not).
var wantDigest = true

// runGo performs one search.Go under the control of an agent and returns all
// observations. It must be called inside a synctest bubble when the request
// uses simulated time. A panic in the search is captured, not propagated.
func runGo(s *search.Search, b *board.Board, req Request, sched Sched, co *coop, extra func(*agent, *search.Search, *search.Options)) (res SearchResult) {
	a := &agent{req: req, sched: sched, coop: co, stop: make(chan struct{}), pollCap: pollCap, onPoll: extra}
	if req.Nodes > pollCap/3 {
		a.pollCap = 3*req.Nodes + 1000 // a deliberately long search: its own budget bounds it
	}
	if req.PollCap > 0 {
		a.pollCap = req.PollCap
	}
	if 12*req.SoftNodes > a.pollCap {
		a.pollCap = 12 * req.SoftNodes // the iteration that crosses a soft limit is still finished
	}
	if co != nil {
		a.board = b
	}
	if len(sched.Quanta) > 0 {
		a.qleft = max(1, sched.Quanta[0].Polls)
	}
	a.lines = &lineRecorder{a: a}
	counters := &search.Counters{}
	opts := []search.Option{search.WithStop(a.stop)}
	if !req.NoCounters {
		opts = append(opts, search.WithCounters(counters))
	}
	if req.Depth > 0 {
		opts = append(opts, search.WithDepth(chess.Depth(req.Depth)))
	}
	if req.Nodes >= 0 {
		opts = append(opts, search.WithNodes(req.Nodes))
	}
	if req.SoftNodes > 0 {
		opts = append(opts, search.WithSoftNodes(req.SoftNodes))
	}
	if req.SoftTime > 0 {
		opts = append(opts, search.WithSoftTime(req.SoftTime))
	}
	if req.Ponder {
		a.hitCh = make(chan time.Time, 1)
		opts = append(opts, search.WithPonderHit(a.hitCh))
	}
	if req.Debug {
		opts = append(opts, search.WithDebug(true))
	}
	if req.Output {
		opts = append(opts, search.WithOutput(a.lines))
	} else {
		opts = append(opts, search.WithOutput(nil))
	}
	if req.OptOrder != 0 {
		x := uint64(req.OptOrder)*0x9E3779B97F4A7C15 + 1
		for i := len(opts) - 1; i > 0; i-- {
			x ^= x << 13
			x ^= x >> 7
			x ^= x << 17
			j := int(x % uint64(i+1))
			opts[i], opts[j] = opts[j], opts[i]
		}
	}
	if req.StopAtPoll == 0 {
		a.closeStop()
	}

	before := b.VerifSnapshot()
	start := time.Now()
	registerAgent(s, a)
	func() {
		defer func() {
			if r := recover(); r != nil {
				if la, ok := r.(livenessAbort); ok {
					res.Panic = "liveness: " + la.detail
				} else {
					res.Panic = fmt.Sprint(r)
					res.PanicStack = trimStack(debug.Stack())
				}
			}
		}()
		score, mv, pm := s.Go(b, opts...)
		res.Score, res.Move, res.Ponder = int(score), mv.String(), pm.String()
	}()
	unregisterAgent(s)
	res.SimElapsedUS = time.Since(start).Microseconds()
	res.Nodes = counters.Nodes
	if req.NoCounters {
		res.Nodes = a.lastNodes // what the search itself counted, as last seen at a poll
	}
	res.Polls = a.polls
	res.Aborted = s.VerifAborted()
	res.Lines = a.lines.lines
	res.IterBounds = a.lines.polls
	res.AbortPoll = a.abortPoll
	res.PollsAfter = a.after
	res.MaxNodesSeen = a.maxNodes
	res.Overspend = a.overspend
	res.Capped = a.capped
	res.Interference = a.interference
	res.LeftPonder = a.leftPonder
	if a.lines.torn != "" && res.Panic == "" {
		// a report that is not exactly one newline-terminated line; recorded for C07/C13 use
		res.Lines = append(res.Lines, "")
		res.Lines = res.Lines[:len(res.Lines)-1]
	}
	if res.Panic == "" {
		if ok, what := snapshotsEqual(before, b.VerifSnapshot()); !ok {
			res.BoardDiff = what
		}
		if wantDigest {
			res.Digest = engineDigest(s)
		}
	}
	return res
}

func trimStack(st []byte) string {
	lines := strings.Split(string(st), "\n")
	var keep []string
	for _, l := range lines {
		if strings.Contains(l, "chess-3") {
			keep = append(keep, strings.TrimSpace(l))
			if len(keep) >= 12 {
				break
			}
		}
	}
	return strings.Join(keep, " | ")
}
