package sim

import (
	"fmt"
	"sort"
	"strings"
	"time"

	"github.com/paulsonkoly/chess-3/board"
	"github.com/paulsonkoly/chess-3/search"

	"verif/sim/ref"
)

// SearchScenario is one explicit, replayable run of the search-world: a game
// (start FEN + scripted or self-played moves), one request per searched
// ply, and the experiments attached to each search.
type SearchScenario struct {
	World           string       `json:"world"` // "search"
	TTBytes         int          `json:"tt_bytes"`
	StartFEN        string       `json:"start_fen"`
	Prefix          []string     `json:"prefix,omitempty"` // moves played before the first search
	Style           string       `json:"style"`            // "carry": one Board carried through MakeMove (datagen); "fresh": FromFEN+moves per search (UCI)
	Steps           []SearchStep `json:"steps"`
	Twins           int          `json:"twins,omitempty"` // number of persistent twin engines (0 = none)
	Noise           bool         `json:"noise,omitempty"` // a further engine searching unrelated positions interleaved with the twins
	Spsa            []SpsaSet    `json:"spsa,omitempty"`  // spsa build only: parameter values set before the run
	NoOutputSmallTT bool         `json:"-"`
}

// SpsaSet is one `setoption`-style parameter assignment.
type SpsaSet struct {
	Name  string `json:"name"`
	Value int    `json:"value"`
}

// SearchStep is one searched ply.
type SearchStep struct {
	Req           Request `json:"req"`
	Sched         Sched   `json:"sched,omitempty"`
	TwinSched     []Sched `json:"twin_sched,omitempty"`      // one per twin (interleaved among themselves)
	SoftToHard    bool    `json:"soft_to_hard,omitempty"`    // twins get WithNodes(N of the primary) instead of the soft limit
	TwinDebugFlip bool    `json:"twin_debug_flip,omitempty"` // twins run with the Debug option inverted
	// TwinOptOrder: twins hand their options to Go in another order;
	// TwinOutputFlip: twins run without an output writer where the primary has
	// one and vice versa (results, node counts and state are compared, not lines).
	TwinOptOrder   int    `json:"twin_opt_order,omitempty"`
	TwinOutputFlip bool   `json:"twin_output_flip,omitempty"`
	Sweep          *Sweep `json:"sweep,omitempty"`
	Clear          bool   `json:"clear,omitempty"`       // Clear() before this search (all persistent engines)
	ClearFirst     bool   `json:"clear_first,omitempty"` // Clear() before the ResizeTT of this step instead of after it
	Resize         int    `json:"resize,omitempty"`      // ResizeTT(bytes) before this search
	Play           string `json:"play"`                  // move to play afterwards: "best", "" (none; search the same root again) or UCI text
	NewRoot        *Root  `json:"new_root,omitempty"`    // before this step: leave the current game and set up this root (the engines keep their state)
	Research       bool   `json:"research,omitempty"`    // search the same root once more with a small budget afterwards (engine reusable)
}

// Sweep runs the same request from the same engine state (clones) at many
// abort instants.
type Sweep struct {
	Kind   string `json:"kind"`             // "nodes": hard budget k; "stop": stop closes at poll j
	Points []int  `json:"points,omitempty"` // explicit instants
	All    bool   `json:"all,omitempty"`    // every instant 0..N (or 0..P+1)
	Max    int    `json:"max,omitempty"`    // with All: give up sweeping when the uninterrupted search exceeds this many nodes/polls
}

// SearchOutcome is the result of running a scenario.
type SearchOutcome struct {
	Violations []Violation      `json:"violations,omitempty"`
	Stats      map[string]int64 `json:"stats"`
	Sigs       []uint64         `json:"-"`
	History    []string         `json:"history,omitempty"`
	SimUS      int64            `json:"sim_us"`
}

type searchRun struct {
	sc      *SearchScenario
	out     *SearchOutcome
	keep    bool // keep history text
	scratch *search.Search
	stop    func() bool
}

func (r *searchRun) stat(k string, d int64) { r.out.Stats[k] += d }

func (r *searchRun) hist(format string, a ...any) {
	if r.keep {
		r.out.History = append(r.out.History, fmt.Sprintf(format, a...))
	}
}

// RunSearchScenario executes sc. It must run inside a synctest bubble.
func RunSearchScenario(sc *SearchScenario, keepHistory bool, deadline func() bool) (out *SearchOutcome) {
	out = &SearchOutcome{Stats: map[string]int64{}}
	r := &searchRun{sc: sc, out: out, keep: keepHistory, stop: deadline}
	startT := time.Now()
	defer func() { out.SimUS = time.Since(startT).Microseconds() }()
	r.run()
	return out
}

func harnessViolation(kind, detail string) Violation {
	return Violation{Property: "HARNESS", Kind: kind, Detail: detail}
}

func (r *searchRun) run() {
	sc := r.sc
	start, err := ref.ParseFEN(sc.StartFEN)
	if err != nil {
		r.out.Violations = append(r.out.Violations, harnessViolation("bad-scenario", err.Error()))
		return
	}
	if err := start.Valid(); err != nil {
		r.out.Violations = append(r.out.Violations, harnessViolation("bad-scenario", "invalid start position: "+err.Error()))
		return
	}
	if err := applySpsa(sc.Spsa); err != nil {
		r.out.Violations = append(r.out.Violations, harnessViolation("bad-scenario", err.Error()))
		return
	}
	g := ref.NewGame(start)
	for _, ms := range sc.Prefix {
		m, err := ref.ParseMove(ms)
		if err != nil || !g.Cur().IsLegal(m) {
			r.out.Violations = append(r.out.Violations, harnessViolation("bad-scenario", "prefix move not legal: "+ms))
			return
		}
		g.Push(m)
	}
	wantDigest = sc.Twins > 0
	prim := search.New(sc.TTBytes)
	var twins []*search.Search
	for i := 0; i < sc.Twins; i++ {
		twins = append(twins, search.New(sc.TTBytes))
	}
	var noise *search.Search
	var noiseGame *ref.Game
	if sc.Noise {
		noise = search.New(sc.TTBytes)
		noiseGame = ref.NewGame(ref.MustFEN(ref.StartFEN))
	}
	var carried *board.Board
	if sc.Style == "carry" {
		carried, err = engineBoard(g)
		if err != nil {
			r.out.Violations = append(r.out.Violations, Violation{Property: "C06", Kind: "fen-rejected", Detail: err.Error()})
			return
		}
	}
	ttBytes := sc.TTBytes

	for si := range sc.Steps {
		if r.stop != nil && r.stop() {
			r.stat("truncated_by_deadline", 1)
			return
		}
		st := &sc.Steps[si]
		if st.NewRoot != nil {
			p0, err := ref.ParseFEN(st.NewRoot.FEN)
			if err != nil || p0.Valid() != nil {
				r.out.Violations = append(r.out.Violations, harnessViolation("bad-scenario", "invalid new root "+st.NewRoot.FEN))
				return
			}
			g = ref.NewGame(p0)
			for _, ms := range st.NewRoot.Moves {
				m, err := ref.ParseMove(ms)
				if err != nil || !g.Cur().IsLegal(m) {
					r.out.Violations = append(r.out.Violations, harnessViolation("bad-scenario", "new root move not legal: "+ms))
					return
				}
				g.Push(m)
			}
			if sc.Style == "carry" {
				if carried, err = engineBoard(g); err != nil {
					r.out.Violations = append(r.out.Violations, Violation{Property: "C06", Kind: "fen-rejected", Detail: err.Error(), Step: si})
					return
				}
			}
			r.hist("%d NEWROOT %s +%d", si, st.NewRoot.FEN, len(st.NewRoot.Moves))
		}
		if st.Clear && st.ClearFirst {
			prim.Clear()
			for _, t := range twins {
				t.Clear()
			}
			r.stat("fault_clear", 1)
			r.hist("%d CLEAR", si)
		}
		if st.Resize > 0 {
			prim.ResizeTT(st.Resize)
			for _, t := range twins {
				t.ResizeTT(st.Resize)
			}
			ttBytes = st.Resize
			r.stat("fault_resize", 1)
			r.hist("%d RESIZE %d", si, st.Resize)
		}
		if st.Clear && !st.ClearFirst {
			prim.Clear()
			for _, t := range twins {
				t.Clear()
			}
			r.stat("fault_clear", 1)
			r.hist("%d CLEAR", si)
		}
		req := st.Req
		if ttBytes < 32000 {
			// HashFull panics by design below 1000 buckets when Output is set.
			req.Output = false
		}
		var b *board.Board
		if sc.Style == "carry" {
			b = carried
		} else {
			b, err = engineBoard(g)
			if err != nil {
				r.out.Violations = append(r.out.Violations, Violation{Property: "C06", Kind: "fen-rejected", Detail: err.Error(), Step: si})
				return
			}
		}

		// abort-point sweep on clones of the primary's current state
		if st.Sweep != nil {
			if !r.sweep(si, g, prim, b, req, st) {
				return
			}
		}

		// the primary search
		r.hist("%d START prim root=%s hist=%d req=%+v", si, g.Cur().FEN(), len(g.Moves), req)
		res := runGo(prim, b, req, st.Sched, nil, nil)
		r.account(&res, req, g)
		r.hist("%d RET prim score=%d move=%s ponder=%s nodes=%d polls=%d aborted=%v digest=%s lines=%d", si, res.Score, res.Move, res.Ponder, res.Nodes, res.Polls, res.Aborted, res.Digest, len(res.Lines))
		for _, l := range res.Lines {
			r.hist("%d LINE prim %s", si, l)
		}
		r.check(g, req, &res, si)
		if res.Panic != "" {
			return
		}

		if len(twins) > 0 && !twinnable(req, &res) {
			// the twins cannot be given this search (stopped from outside, pondering,
			// or cut short by the harness cap): their state no longer follows the
			// primary's, so nothing after this point could be compared
			r.stat("twin_run_ended_untwinnable", 1)
			return
		}
		// persistent twins: same request (or its hard-budget translation), interleaved
		if len(twins) > 0 {
			treq := req
			if st.TwinDebugFlip {
				treq.Debug = !req.Debug // Debug only adds statistics: it is not a limit
			}
			if st.TwinOptOrder != 0 {
				treq.OptOrder = st.TwinOptOrder
				r.stat("twins_with_other_option_order", 1)
			}
			if st.TwinOutputFlip {
				treq.Output = !req.Output
				r.stat("twins_with_output_flipped", 1)
			}
			ignoreAbortLine := false
			if st.SoftToHard && (req.SoftNodes > 0 || req.SoftTime > 0) && !res.Aborted {
				treq.SoftNodes, treq.SoftTime = 0, 0
				treq.Nodes = res.Nodes
				ignoreAbortLine = true
				r.stat("soft_to_hard_twins", 1)
			}
			tres := r.runInterleaved(si, twins, func() *board.Board { nb, _ := engineBoard(g); return nb }, treq, st.TwinSched, noise, noiseGame)
			for ti := range tres {
				r.account(&tres[ti], treq, g)
				r.hist("%d RET twin%d score=%d move=%s ponder=%s nodes=%d polls=%d aborted=%v digest=%s", si, ti, tres[ti].Score, tres[ti].Move, tres[ti].Ponder, tres[ti].Nodes, tres[ti].Polls, tres[ti].Aborted, tres[ti].Digest)
				r.check(g, treq, &tres[ti], si)
				vs := compareTwins("primary", fmt.Sprintf("twin%d", ti), &res, &tres[ti], ignoreAbortLine, si)
				if ignoreAbortLine {
					for i := range vs {
						vs[i].Kind = "soft-hard-" + vs[i].Kind[len("twin-"):]
					}
				}
				if st.TwinOutputFlip {
					// one of the two wrote no lines at all
					kept := vs[:0]
					for _, v := range vs {
						if !strings.HasSuffix(v.Kind, "-lines") {
							kept = append(kept, v)
						}
					}
					vs = kept
				}
				r.out.Violations = append(r.out.Violations, vs...)
				if tres[ti].Panic != "" {
					return
				}
			}
			r.stat("twin_comparisons", int64(len(tres)))
		}

		// a cleared engine is in the same state as a new one of that size
		if st.Clear && twinnable(req, &res) && sc.Twins > 0 {
			fresh := search.New(ttBytes)
			nb, _ := engineBoard(g)
			fres := runGo(fresh, nb, req, st.Sched, nil, nil)
			r.account(&fres, req, g)
			vs := compareTwins("cleared engine", "new engine", &res, &fres, false, si)
			for i := range vs {
				vs[i].Kind = "fresh-" + vs[i].Kind[len("twin-"):]
				if vs[i].Kind == "fresh-state" {
					continue // the statement speaks about results, not about the bytes Clear leaves
				}
				r.out.Violations = append(r.out.Violations, vs[i])
			}
			r.stat("fresh_engine_comparisons", 1)
		}

		// the same instance must be searchable again
		if st.Research {
			rr := Request{Limits: Limits{Nodes: 200, Depth: 3}, StopAtPoll: -1, Output: req.Output}
			res2 := runGo(prim, b, rr, Sched{}, nil, nil)
			r.account(&res2, rr, g)
			r.hist("%d RET research score=%d move=%s nodes=%d", si, res2.Score, res2.Move, res2.Nodes)
			r.check(g, rr, &res2, si)
			if res2.Panic != "" {
				return
			}
			if len(twins) > 0 {
				for ti, t := range twins {
					tr := runGo(t, b, rr, Sched{}, nil, nil)
					r.check(g, rr, &tr, si)
					r.out.Violations = append(r.out.Violations, compareTwins("primary", fmt.Sprintf("twin%d", ti), &res2, &tr, false, si)...)
				}
			}
		}

		// advance the game
		var mv ref.Move
		switch st.Play {
		case "":
			continue
		case "best":
			m, err := ref.ParseMove(res.Move)
			if err != nil || m.Null() || !g.Cur().IsLegal(m) {
				r.hist("%d END game over or unplayable best move %s", si, res.Move)
				return
			}
			mv = m
		default:
			m, err := ref.ParseMove(st.Play)
			if err != nil || !g.Cur().IsLegal(m) {
				// a scripted move that became illegal after minimisation: stop here
				r.stat("script_cut", 1)
				return
			}
			mv = m
		}
		g.Push(mv)
		if sc.Style == "carry" {
			carried.MakeMove(toEngineMove(mv))
		}
		r.hist("%d PLAY %s", si, mv)
	}
}

// twinnable: the request is limited only by depth / hard nodes / soft limits
// (no stop, no ponder), so the statement promises reproducibility.
func twinnable(req Request, res *SearchResult) bool {
	return req.StopAtPoll < 0 && !req.Ponder && !res.Capped
}

func (r *searchRun) check(g *ref.Game, req Request, res *SearchResult, si int) {
	r.out.Violations = append(r.out.Violations, checkC06(g, req, res, si)...)
	r.out.Violations = append(r.out.Violations, checkC07(g, req, res, si)...)
	if res.Interference != "" {
		r.out.Violations = append(r.out.Violations, Violation{Property: "C08", Kind: "instance-interference", Detail: res.Interference + "; root=" + g.Cur().FEN(), Step: si})
	}
	if res.Overspend != "" {
		r.out.Violations = append(r.out.Violations, Violation{Property: "C08", Kind: "overspend", Detail: res.Overspend + " root=" + g.Cur().FEN(), Step: si})
	}
	if req.Nodes >= 0 && (!req.Ponder || res.LeftPonder) && res.Panic == "" && res.Nodes > req.Nodes {
		r.out.Violations = append(r.out.Violations, Violation{Property: "C08", Kind: "overspend", Detail: fmt.Sprintf("returned with Counters.Nodes=%d above the hard budget %d; root=%s", res.Nodes, req.Nodes, g.Cur().FEN()), Step: si})
	}
}

// account updates the reach counters (faults that actually fired, probes).
func (r *searchRun) account(res *SearchResult, req Request, g *ref.Game) {
	r.stat("searches", 1)
	if res.Aborted || req.SoftNodes > 0 || req.SoftTime > 0 {
		// one distinct non-trivial case: this root and history, this request
		// (abort instant included), this table size
		r.out.Sigs = append(r.out.Sigs, hash64(fmt.Sprintf("%s|%v|%d|%+v", r.sc.StartFEN, len(g.Moves), r.sc.TTBytes, req)+g.Cur().FEN()))
	}
	r.stat("polls", int64(res.Polls))
	r.stat("nodes", int64(res.Nodes))
	if res.Capped {
		r.stat("harness_poll_cap", 1)
	}
	if res.Aborted {
		switch {
		case req.StopAtPoll >= 0 && res.AbortPoll == max(1, req.StopAtPoll):
			r.stat("fault_stop_at_poll", 1)
		case req.Nodes >= 0:
			r.stat("fault_hard_node_abort", 1)
		}
		if len(res.Lines) == 0 || !parseInfo(res.Lines[0]).hasPV {
			r.stat("probe_abort_before_first_line", 1)
		}
		if len(res.IterBounds) > 1 && res.AbortPoll > 0 {
			for _, p := range res.IterBounds {
				if res.AbortPoll == p+1 {
					r.stat("probe_abort_on_iteration_boundary", 1)
				}
			}
		}
	}
	final := g.FinalReasons()
	for _, f := range final {
		r.stat("probe_final_root_"+f, 1)
	}
	if len(final) == 0 {
		if g.Occurrences() == 2 {
			r.stat("probe_root_second_occurrence", 1)
		}
		if g.Cur().Half == 99 {
			r.stat("probe_root_clock_99", 1)
		}
		if res.Move != "0000" && res.Aborted {
			hasPV := false
			for _, l := range res.Lines {
				if il := parseInfo(l); il.hasPV && len(il.pv) > 0 {
					hasPV = true
				}
			}
			if !hasPV && req.Output {
				r.stat("probe_fallback_move_path", 1)
			}
		}
		if len(g.Cur().Legal()) == 1 {
			r.stat("probe_single_reply_root", 1)
		}
		if g.Cur().InCheck(g.Cur().White) {
			r.stat("probe_in_check_root", 1)
		}
	}
	if req.Ponder {
		r.stat("fault_ponder_search", 1)
		if req.PonderHitAtPoll > 0 && res.Polls >= req.PonderHitAtPoll {
			r.stat("fault_ponderhit", 1)
		}
		if req.Nodes >= 0 && res.Polls > 0 && !res.Aborted {
			r.stat("probe_ponder_outlived_budget", 1)
		}
	}
	if res.Ponder == "0000" && res.Move != "0000" {
		r.stat("probe_ponder_cleared", 1)
	}
	if req.SoftNodes > 0 || req.SoftTime > 0 {
		if !res.Aborted {
			r.stat("fault_soft_limit_stop", 1)
		}
	}
}

// sweep runs req from clones of prim's state at many abort instants.
// Returns false when the run must end (panic found).
func (r *searchRun) sweep(si int, g *ref.Game, prim *search.Search, b *board.Board, req Request, st *SearchStep) bool {
	sw := st.Sweep
	base := req
	base.StopAtPoll = -1
	if sw.Kind == "nodes" {
		base.Nodes = -1
		if base.Depth == 0 && base.SoftNodes == 0 && base.SoftTime == 0 {
			base.Depth = 4
		}
	}
	var points []int
	if sw.All {
		// learn the size of the uninterrupted search
		ref0 := runGo(prim.VerifClone(), b, base, Sched{}, nil, nil)
		r.account(&ref0, base, g)
		r.check(g, base, &ref0, si)
		if ref0.Panic != "" {
			return false
		}
		n := ref0.Nodes
		if sw.Kind == "stop" {
			n = ref0.Polls + 1
		}
		if sw.Max > 0 && n > sw.Max {
			// too large for a complete sweep: fall back to a spread sample plus
			// the neighbourhoods of the iteration boundaries
			set := map[int]bool{0: true, 1: true, 2: true, n: true, n - 1: true}
			for i := 0; i < sw.Max; i++ {
				set[int(int64(i)*int64(n)/int64(sw.Max))] = true
			}
			if sw.Kind == "stop" {
				for _, p := range ref0.IterBounds {
					for d := -1; d <= 2; d++ {
						set[p+d] = true
					}
				}
			}
			for k := range set {
				if k >= 0 && k <= n {
					points = append(points, k)
				}
			}
			sort.Ints(points)
			r.stat("sweeps_sampled", 1)
		} else {
			for k := 0; k <= n; k++ {
				points = append(points, k)
			}
			r.stat("sweeps_complete", 1)
		}
	} else {
		points = sw.Points
	}
	for _, k := range points {
		if r.stop != nil && r.stop() {
			r.stat("truncated_by_deadline", 1)
			return false
		}
		q := base
		if sw.Kind == "nodes" {
			q.Nodes = k
		} else {
			q.StopAtPoll = k
		}
		// the same scratch engine is reused over the sweep (a search after an
		// aborted search on the same instance), with the primary's persistent
		// state copied in before every point
		if r.scratch == nil || r.scratch.VerifTTBytes() != prim.VerifTTBytes() || k%29 == 0 {
			r.scratch = prim.VerifClone()
		} else {
			prim.VerifCopyStateTo(r.scratch)
		}
		c := r.scratch
		res := runGo(c, b, q, st.Sched, nil, nil)
		r.account(&res, q, g)
		r.stat("abort_points_swept", 1)
		n0 := len(r.out.Violations)
		r.check(g, q, &res, si)
		if len(r.out.Violations) > n0 {
			for i := n0; i < len(r.out.Violations); i++ {
				r.out.Violations[i].Detail += fmt.Sprintf(" [sweep %s=%d]", sw.Kind, k)
			}
			r.hist("%d SWEEP %s=%d move=%s aborted=%v nodes=%d", si, sw.Kind, k, res.Move, res.Aborted, res.Nodes)
		}
		if res.Panic != "" {
			return false
		}
		// the aborted clone must be searchable again
		if k%7 == 0 {
			rr := Request{Limits: Limits{Nodes: 64, Depth: 2}, StopAtPoll: -1, Output: q.Output}
			res2 := runGo(c, b, rr, Sched{}, nil, nil)
			r.account(&res2, rr, g)
			r.check(g, rr, &res2, si)
			if res2.Panic != "" {
				return false
			}
		}
	}
	return true
}

// runInterleaved runs the same request on every twin, the engines taking
// turns quantum by quantum as the per-twin schedules dictate, with an
// optional noise engine searching something else in between.
func (r *searchRun) runInterleaved(si int, twins []*search.Search, mk func() *board.Board, req Request, scheds []Sched, noise *search.Search, noiseGame *ref.Game) []SearchResult {
	type party struct {
		co   *coop
		done chan struct{}
		res  *SearchResult
	}
	n := len(twins)
	results := make([]SearchResult, n)
	var parties []*party
	// every twin gets its own Board built the same way, so that a defect that
	// shares state through the position object cannot hide
	for i := 0; i < n; i++ {
		sched := Sched{Quanta: []Quantum{{Polls: 97 + 31*i, CostUS: int64(13 * (i + 1))}}}
		if i < len(scheds) && len(scheds[i].Quanta) > 0 {
			sched = scheds[i]
		}
		p := &party{co: &coop{toSched: make(chan struct{}), resume: make(chan struct{})}, done: make(chan struct{}), res: &results[i]}
		parties = append(parties, p)
		bb := mk()
		go func(i int, p *party, bb *board.Board, sched Sched) {
			defer close(p.done)
			<-p.co.resume
			*p.res = runGo(twins[i], bb, req, sched, p.co, nil)
		}(i, p, bb, sched)
	}
	if noise != nil {
		p := &party{co: &coop{toSched: make(chan struct{}), resume: make(chan struct{})}, done: make(chan struct{}), res: new(SearchResult)}
		parties = append(parties, p)
		nb, _ := engineBoard(noiseGame)
		go func() {
			defer close(p.done)
			<-p.co.resume
			*p.res = runGo(noise, nb, Request{Limits: Limits{Nodes: 1500, Depth: 6}, StopAtPoll: -1}, Sched{Quanta: []Quantum{{Polls: 53, CostUS: 7}}}, p.co, nil)
		}()
		defer func() {
			// advance the noise game so that it keeps searching fresh positions
			if m, err := ref.ParseMove(p.res.Move); err == nil && !m.Null() && noiseGame.Cur().IsLegal(m) && len(noiseGame.Moves) < 60 {
				noiseGame.Push(m)
			}
		}()
	}
	active := len(parties)
	finished := make([]bool, len(parties))
	turn := 0
	for active > 0 {
		i := turn % len(parties)
		turn++
		if finished[i] {
			continue
		}
		p := parties[i]
		p.co.resume <- struct{}{}
		select {
		case <-p.co.toSched:
			r.stat("interleave_switches", 1)
		case <-p.done:
			finished[i] = true
			active--
		}
	}
	return results
}
