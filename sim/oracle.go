package sim

import (
	"fmt"
	"strconv"
	"strings"

	"github.com/paulsonkoly/chess-3/chess"

	"verif/sim/ref"
)

// Violation is one failed oracle clause.
type Violation struct {
	Property string   `json:"property"`
	Kind     string   `json:"kind"`
	Detail   string   `json:"detail"`
	Step     int      `json:"step"` // index of the scenario step (search, event) it was observed at
	Finding  string   `json:"finding,omitempty"`
	Ctx      *RootCtx `json:"ctx,omitempty"` // the root the violation was observed on (C06/C07)
}

// RootCtx identifies a root with its history, for known-finding predicates.
type RootCtx struct {
	StartFEN string   `json:"start_fen"`
	Moves    []string `json:"moves,omitempty"`
	Aborted  bool     `json:"aborted"`
	Move     string   `json:"move"`
}

func rootCtx(g *ref.Game, res *SearchResult) *RootCtx {
	c := &RootCtx{StartFEN: g.Start.FEN(), Aborted: res.Aborted, Move: res.Move}
	for _, m := range g.Moves {
		c.Moves = append(c.Moves, m.String())
	}
	return c
}

func (v Violation) String() string {
	return fmt.Sprintf("%s/%s at step %d: %s", v.Property, v.Kind, v.Step, v.Detail)
}

// infoLine is the format-tolerant parse of one reported line.
type infoLine struct {
	hasDepth, hasNodes, hasPV bool
	depth, nodes              int
	pv                        []string
	raw                       string
}

func parseInfo(l string) infoLine {
	il := infoLine{raw: l}
	tok := strings.Fields(l)
	for i := 0; i < len(tok); i++ {
		switch tok[i] {
		case "string":
			// `info string <free text>`: nothing after it is a field
			return il
		case "depth":
			if i+1 < len(tok) {
				if v, err := strconv.Atoi(tok[i+1]); err == nil {
					il.depth, il.hasDepth = v, true
				}
				i++
			}
		case "nodes":
			if i+1 < len(tok) {
				if v, err := strconv.Atoi(tok[i+1]); err == nil {
					il.nodes, il.hasNodes = v, true
				}
				i++
			}
		case "pv":
			il.hasPV = true
			il.pv = tok[i+1:]
			i = len(tok)
		}
	}
	return il
}

// lineKey is what the C08 statement promises to be reproducible about one
// reported line: depth, score, node count and variation. Other fields (time,
// and anything a future format may add, such as nps) are not compared.
func lineKey(l string) string {
	il := parseInfo(l)
	score := ""
	tok := strings.Fields(l)
	for i := 0; i+2 < len(tok); i++ {
		if tok[i] == "string" {
			break
		}
		if tok[i] == "score" {
			score = tok[i+1] + " " + tok[i+2]
			break
		}
	}
	return fmt.Sprintf("depth=%v/%d nodes=%v/%d score=%s pv=%s", il.hasDepth, il.depth, il.hasNodes, il.nodes, score, strings.Join(il.pv, " "))
}

// maskTime blanks the value of the time field so that info streams can be
// compared across clocks.
func maskTime(l string) string {
	tok := strings.Fields(l)
	for i := 0; i+1 < len(tok); i++ {
		if tok[i] == "time" {
			tok[i+1] = "*"
		}
	}
	return strings.Join(tok, " ")
}

// checkC06 applies clauses 1-4 of the C06 oracle to one finished search on
// root g.Cur() (with the history in g).
func checkC06(g *ref.Game, req Request, res *SearchResult, step int) []Violation {
	var out []Violation
	add := func(kind, detail string) {
		out = append(out, Violation{Property: "C06", Kind: kind, Detail: detail, Step: step, Ctx: rootCtx(g, res)})
	}
	root := g.Cur()
	if res.Panic != "" {
		if strings.HasPrefix(res.Panic, "liveness: ") {
			add("liveness", res.Panic+" root="+root.FEN())
		} else {
			add("panic", res.Panic+" @ "+res.PanicStack+" root="+root.FEN())
		}
		return out
	}
	reasons := g.FinalReasons()
	final := len(reasons) > 0
	mv, err := ref.ParseMove(res.Move)
	if err != nil {
		add("illegal-move", fmt.Sprintf("returned move %q is not a move; root=%s", res.Move, root.FEN()))
	} else if !mv.Null() && !root.IsLegal(mv) {
		add("illegal-move", fmt.Sprintf("returned move %s is not legal in root %s (history %d plies)", res.Move, root.FEN(), len(g.Moves)))
	} else if mv.Null() && !final {
		add("null-on-nonfinal", fmt.Sprintf("null move returned on a non-final root %s (legal=%d, clock=%d, occurrences=%d, aborted=%v, nodes=%d)",
			root.FEN(), len(root.Legal()), root.Half, g.Occurrences(), res.Aborted, res.Nodes))
	}
	if !res.Aborted && final && err == nil {
		mate := false
		drawFinal := false
		for _, r := range reasons {
			if r == "checkmate" {
				mate = true
			} else {
				drawFinal = true
			}
		}
		if !mv.Null() {
			add("final-not-null", fmt.Sprintf("completed search on a final root (%s) returned %s; root=%s occurrences=%d clock=%d",
				strings.Join(reasons, "+"), res.Move, root.FEN(), g.Occurrences(), root.Half))
		} else {
			okScore := false
			if mate && res.Score == -int(chess.Inf) {
				okScore = true
			}
			if (drawFinal || !mate) && res.Score == 0 {
				okScore = true
			}
			if !okScore {
				add("final-score", fmt.Sprintf("completed search on a final root (%s) returned score %d; root=%s", strings.Join(reasons, "+"), res.Score, root.FEN()))
			}
		}
	}
	if res.BoardDiff != "" {
		add("board-changed", fmt.Sprintf("position object differs after Go: %s; root=%s aborted=%v abort_poll=%d", res.BoardDiff, root.FEN(), res.Aborted, res.AbortPoll))
	}
	return out
}

// checkC07 applies the C07 oracle to the reported lines of one search.
func checkC07(g *ref.Game, req Request, res *SearchResult, step int) []Violation {
	var out []Violation
	add := func(kind, detail string) {
		out = append(out, Violation{Property: "C07", Kind: kind, Detail: detail, Step: step, Ctx: rootCtx(g, res)})
	}
	if res.Panic != "" {
		return nil
	}
	root := g.Cur()
	lastPV := []string(nil)
	lastDepth, haveDepth := 0, false
	lastNodes, haveNodes := 0, false
	for i, l := range res.Lines {
		il := parseInfo(l)
		if il.hasDepth {
			if haveDepth && il.depth <= lastDepth {
				add("depth-not-increasing", fmt.Sprintf("line %d reports depth %d after depth %d: %q; root=%s", i, il.depth, lastDepth, l, root.FEN()))
			}
			lastDepth, haveDepth = il.depth, true
		}
		if il.hasNodes {
			if haveNodes && il.nodes < lastNodes {
				add("nodes-decreasing", fmt.Sprintf("line %d reports %d nodes after %d: %q; root=%s", i, il.nodes, lastNodes, l, root.FEN()))
			}
			lastNodes, haveNodes = il.nodes, true
		}
		if il.hasPV && len(il.pv) > 0 {
			lastPV = il.pv
			p := *root
			for k, ms := range il.pv {
				m, err := ref.ParseMove(ms)
				if err != nil || m.Null() || !p.IsLegal(m) {
					add("pv-illegal", fmt.Sprintf("line %d: pv move %d (%s) is not legal after %v from root %s; line=%q", i, k, ms, il.pv[:k], root.FEN(), l))
					break
				}
				p = p.Play(m)
			}
		}
	}
	if req.Output && lastPV != nil && res.Move != lastPV[0] {
		add("bestmove-not-pv-head", fmt.Sprintf("returned %s but the most recent non-empty variation starts with %s; root=%s aborted=%v", res.Move, lastPV[0], root.FEN(), res.Aborted))
	}
	if res.Ponder != "0000" && res.Ponder != "" {
		mv, err1 := ref.ParseMove(res.Move)
		pm, err2 := ref.ParseMove(res.Ponder)
		if err1 != nil || err2 != nil || mv.Null() || !root.IsLegal(mv) {
			add("ponder-illegal", fmt.Sprintf("ponder move %s given with unplayable move %s; root=%s", res.Ponder, res.Move, root.FEN()))
		} else {
			n := root.Play(mv)
			if !n.IsLegal(pm) {
				add("ponder-illegal", fmt.Sprintf("ponder move %s is not legal after %s from root %s", res.Ponder, res.Move, root.FEN()))
			}
		}
	}
	return out
}

// compareTwins is the C08(a) oracle: two engines in the same state given the
// same request must agree on everything but the time field.
func compareTwins(nameA, nameB string, a, b *SearchResult, ignoreTrailingAbortLine bool, step int) []Violation {
	var out []Violation
	add := func(kind, detail string) {
		out = append(out, Violation{Property: "C08", Kind: kind, Detail: detail, Step: step})
	}
	if a.Panic != "" || b.Panic != "" {
		if a.Panic != b.Panic {
			add("twin-panic", fmt.Sprintf("%s panic=%q, %s panic=%q", nameA, a.Panic, nameB, b.Panic))
		}
		return out
	}
	if a.Score != b.Score || a.Move != b.Move || a.Ponder != b.Ponder {
		add("twin-result", fmt.Sprintf("%s (score %d, move %s, ponder %s) vs %s (score %d, move %s, ponder %s)",
			nameA, a.Score, a.Move, a.Ponder, nameB, b.Score, b.Move, b.Ponder))
	}
	if a.Nodes != b.Nodes {
		add("twin-nodes", fmt.Sprintf("%s searched %d nodes, %s %d", nameA, a.Nodes, nameB, b.Nodes))
	}
	la, lb := reportLines(a.Lines), reportLines(b.Lines)
	if ignoreTrailingAbortLine {
		la, lb = stripAbortLine(la), stripAbortLine(lb)
	}
	if len(la) != len(lb) {
		add("twin-lines", fmt.Sprintf("%s reported %d lines, %s %d", nameA, len(la), nameB, len(lb)))
	} else {
		for i := range la {
			if lineKey(la[i]) != lineKey(lb[i]) {
				add("twin-lines", fmt.Sprintf("line %d differs: %s %q vs %s %q", i, nameA, la[i], nameB, lb[i]))
				break
			}
		}
	}
	if a.Digest != b.Digest {
		add("twin-state", fmt.Sprintf("persistent state left behind differs: %s %s vs %s %s", nameA, a.Digest, nameB, b.Digest))
	}
	return out
}

// reportLines keeps the lines that report search progress (they carry a depth,
// a node count or a variation); free text such as `info string ...` is not
// something the statement promises to be reproducible.
func reportLines(l []string) []string {
	var out []string
	for _, x := range l {
		if il := parseInfo(x); il.hasDepth || il.hasNodes || il.hasPV {
			out = append(out, x)
		}
	}
	return out
}

// stripAbortLine removes a trailing line that carries no score/pv (the
// "info depth D nodes N" line a hard-aborted search prints).
func stripAbortLine(l []string) []string {
	if len(l) == 0 {
		return l
	}
	il := parseInfo(l[len(l)-1])
	if !il.hasPV && !strings.Contains(l[len(l)-1], " score ") {
		return l[:len(l)-1]
	}
	return l
}
