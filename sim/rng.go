package sim

import "math/rand/v2"

// newRng derives the per-run PRNG. Everything random in a run comes from it.
func newRng(seed uint64) *rand.Rand {
	return rand.New(rand.NewPCG(seed, seed^0x9e3779b97f4a7c15))
}

// mixSeed derives the seed of run i of a given stream from the master seed
// (splitmix64 finaliser).
func mixSeed(master uint64, stream string, i uint64) uint64 {
	x := master
	for _, c := range []byte(stream) {
		x = (x ^ uint64(c)) * 0x100000001b3
	}
	x += 0x9e3779b97f4a7c15 * (i + 1)
	x = (x ^ (x >> 30)) * 0xbf58476d1ce4e5b9
	x = (x ^ (x >> 27)) * 0x94d049bb133111eb
	return x ^ (x >> 31)
}
