package sim

import (
	"bytes"
	"errors"
	"fmt"
	"io"
	"runtime"
	"runtime/debug"
	"strings"
	"sync"
	"sync/atomic"
	"testing/synctest"
	"time"

	"github.com/paulsonkoly/chess-3/board"
	"github.com/paulsonkoly/chess-3/chess"
	"github.com/paulsonkoly/chess-3/move"
	"github.com/paulsonkoly/chess-3/search"
	"github.com/paulsonkoly/chess-3/uci"
)

// UStep is one scheduler decision of the uci-world.
type UStep struct {
	Op     string `json:"op"`                // in | eof | grant | run | tick | drain | auto | probe
	Data   string `json:"data,omitempty"`    // in: bytes the GUI writes (whole lines, fragments, or several lines)
	Polls  int    `json:"polls,omitempty"`   // run: abort polls granted to the parked search
	CostUS int64  `json:"cost_us,omitempty"` // run: simulated time charged before the polls execute
	DUS    int64  `json:"d_us,omitempty"`    // tick: simulated time that passes
	N      int    `json:"n,omitempty"`       // grant: number of pending writes to let through (default 1); auto: 1 the GUI reads every line at once, 0 it stops reading
	Fail   bool   `json:"fail,omitempty"`    // grant: the first of them fails with a write error instead (fault)
}

// UCIScenario is one explicit, replayable session of the uci-world.
type UCIScenario struct {
	World   string   `json:"world"` // "uci"
	Stub    bool     `json:"stub"`  // blocking stub search instead of the real one
	TTBytes int      `json:"tt_bytes,omitempty"`
	Stubs   []StubGo `json:"stubs,omitempty"` // behaviour of the k-th stub search
	Steps   []UStep  `json:"steps"`
	// AutoGrant: the GUI reads every line at once (no output back-pressure);
	// used where the instant at which the engine acts on a command matters.
	AutoGrant bool `json:"auto_grant,omitempty"`
	Spsa      bool `json:"-"`
}

// StubGo scripts one call of the stub search.
type StubGo struct {
	Lines     []string `json:"lines,omitempty"`       // info lines it writes before blocking
	Move      string   `json:"move"`                  // what it returns
	Ponder    string   `json:"ponder,omitempty"`      //
	SelfEndUS int64    `json:"self_end_us,omitempty"` // >0: returns by itself after this much simulated time
	UnwindUS  int64    `json:"unwind_us,omitempty"`   // >0: simulated time it takes to return once it has seen the stop
}

// Event is one entry of the recorded history.
type Event struct {
	Seq  int    `json:"seq"`
	T    int64  `json:"t_us"`
	Kind string `json:"kind"`
	Data string `json:"data,omitempty"`
	N    int64  `json:"n,omitempty"`
}

// GoCall records what the driver asked of the search, and what came back.
type GoCall struct {
	SeqCall, SeqRet int
	TCall, TRet     int64
	TStop           int64 // fake instant at which the stop channel was seen closed (stub) ; -1 unknown
	Opts            search.Options
	HasStop         bool
	HasPonderHit    bool
	RootFEN         string
	Score           int
	Move, Ponder    string
	Polls           int
	Aborted         bool
	Panic           string
	PanicStack      string
	BoardDiff       string
	AfterPolls      int
	Returned        bool
	Killed          bool // the harness unwound this search after giving up on it
}

// UCIOutcome is the result of running a uci scenario.
type UCIOutcome struct {
	Events     []Event          `json:"events,omitempty"`
	Calls      []*GoCall        `json:"-"`
	Violations []Violation      `json:"violations,omitempty"`
	Stats      map[string]int64 `json:"stats"`
	SimUS      int64            `json:"sim_us"`
	Steps      []UStep          `json:"-"` // steps actually applied (generation mode)
	Done       bool             `json:"done"`
}

type simReader struct {
	ch  chan []byte
	buf []byte
}

func (r *simReader) Read(p []byte) (int, error) {
	if len(r.buf) == 0 {
		chunk, ok := <-r.ch
		if !ok {
			return 0, io.EOF
		}
		r.buf = chunk
	}
	n := copy(p, r.buf)
	r.buf = r.buf[n:]
	return n, nil
}

type simWriter struct {
	offer chan []byte
	grant chan bool // true: written; false: the injected fault "write error"
	// noblock: every write is accepted at once (an infinitely fast GUI). Used
	// when the code under test holds a lock while it writes: a goroutine parked
	// in Write would then keep others waiting on a sync.Mutex, which synctest
	// does not treat as durably blocked, and the bubble would never go quiescent.
	noblock bool
	sink    func([]byte)
	// in counts the Write calls in progress; overlap is set when a call is
	// entered while another one is parked waiting for its grant, i.e. when two
	// goroutines of the driver use the consumer's io.Writer at the same time
	// (io.Writer promises nothing about concurrent use). Deterministic: the
	// first call is durably parked until the scheduler grants it.
	in      atomic.Int32
	overlap atomic.Bool
}

// writerNoBlock is set per worker process by the driver (see Job.NoBlockWriter).
var writerNoBlock bool

var errSimWrite = errors.New("simulated write error (GUI end of the pipe is broken)")

func (w *simWriter) Write(p []byte) (int, error) {
	if w.noblock {
		// recorded through the same ordered buffer as the other events raised
		// by driver goroutines (a GOCALL precedes the lines of its search)
		w.sink(append([]byte(nil), p...))
		return len(p), nil
	}
	if w.in.Add(1) > 1 {
		w.overlap.Store(true)
	}
	defer w.in.Add(-1)
	w.offer <- append([]byte(nil), p...)
	if ok := <-w.grant; !ok {
		return 0, errSimWrite
	}
	return len(p), nil
}

// uciWorld is the simulator proper: the only goroutine that takes decisions.
type uciWorld struct {
	overlapSeen bool
	sc          *UCIScenario
	out         *UCIOutcome
	rd          *simReader
	wr          *simWriter
	errW        *bytes.Buffer
	co          *coop
	done        chan struct{}
	t0          time.Time

	pipe        [][]byte
	eofQueued   bool
	eofSent     bool
	partial     string // GUI-side bytes of the current unfinished line
	rdPartial   string // reader-side bytes of the current unfinished line
	selectorID  int
	stackBuf    []byte
	needInspect bool
	stuck       bool
	quitSent    bool
	autoGrant   bool // every write is granted at once (C08 driver twins)
	twinOf      *uciWorld
	readyokOwed int // isready lines handed to the reader minus readyok lines seen at the writer
	pending     []byte
	hasPend     bool
	parked      bool
	finished    bool

	// events raised by the driver's own goroutines (through the search seam)
	// are buffered and merged into the history by the scheduler at the next
	// quiescent point: only the scheduler ever appends to the history.
	asyncMu sync.Mutex
	async   []asyncEvent

	// hazard: the per-search interrupt goroutine exists but is not waiting in
	// its select (it is blocked writing readyok to a full output channel). If
	// two of its sources became ready meanwhile, Go would pick at random when
	// it returns to the select; the scheduler therefore lets at most one
	// become ready until the hazard has cleared (DESIGN.md 5.4).
	hazard        bool
	readerPending bool // the reader holds a line nobody has received yet

	cur      *GoCall // search in progress (between GOCALL and GORET)
	curAgent *agent
	stubIdx  int
	keep     bool
	drvPanic string
}

// now is the simulated time since the start of the session in microseconds
// (computed from Unix seconds: time.Since saturates after 292 years, and
// C14 sessions cover decades per search).
func (w *uciWorld) now() int64 {
	t := time.Now()
	return (t.Unix()-w.t0.Unix())*1_000_000 + int64(t.Nanosecond()-w.t0.Nanosecond())/1000
}

func (w *uciWorld) ev(kind, data string, n int64) int {
	seq := len(w.out.Events)
	w.out.Events = append(w.out.Events, Event{Seq: seq, T: w.now(), Kind: kind, Data: data, N: n})
	return seq
}

type asyncEvent struct {
	t    int64
	kind string
	data string
	n    int64
	dst  *int
}

// evAsync records an event from a goroutine other than the scheduler.
func (w *uciWorld) evAsync(kind, data string, n int64, dst *int) {
	w.asyncMu.Lock()
	w.async = append(w.async, asyncEvent{t: w.now(), kind: kind, data: data, n: n, dst: dst})
	w.asyncMu.Unlock()
}

// flushAsync merges buffered events; called by the scheduler at quiescence.
func (w *uciWorld) flushAsync() bool {
	w.asyncMu.Lock()
	evs := w.async
	w.async = nil
	w.asyncMu.Unlock()
	for _, e := range evs {
		if e.kind == "OUT" {
			// non-blocking writer: offered and read at once
			if e.data == "readyok\n" {
				w.readyokOwed--
			}
			w.out.Events = append(w.out.Events, Event{Seq: len(w.out.Events), T: e.t, Kind: "WOFFER", Data: e.data})
		}
		seq := len(w.out.Events)
		w.out.Events = append(w.out.Events, Event{Seq: seq, T: e.t, Kind: e.kind, Data: e.data, N: e.n})
		if e.dst != nil {
			*e.dst = seq
		}
	}
	return len(evs) > 0
}

func (w *uciWorld) stat(k string, d int64) { w.out.Stats[k] += d }

// wrapSearch sits in the driver's Search seam. With the real search inside it
// adds observation only (options, board snapshot, panic capture, the agent
// that parks the search); with the stub it is the whole search.
type wrapSearch struct {
	w     *uciWorld
	inner *search.Search
}

func (ws *wrapSearch) Clear() {
	ws.w.evAsync("CLEAR", "", 0, nil)
	if ws.inner != nil {
		ws.inner.Clear()
	}
}

func (ws *wrapSearch) ResizeTT(n int) {
	ws.w.evAsync("RESIZE", "", int64(n), nil)
	if ws.inner != nil {
		ws.inner.ResizeTT(n)
	}
}

func (ws *wrapSearch) Go(b *board.Board, opts ...search.Option) (score chess.Score, mv move.Move, pm move.Move) {
	w := ws.w
	call := &GoCall{TStop: -1, RootFEN: b.FEN()}
	for _, o := range opts {
		o(&call.Opts)
	}
	call.HasStop = call.Opts.Stop != nil
	call.HasPonderHit = call.Opts.PonderHit != nil
	w.evAsync("GOCALL", fmt.Sprintf("depth=%d nodes=%d softtime=%d stop=%v ponder=%v root=%s", call.Opts.Depth, call.Opts.Nodes, call.Opts.SoftTime, call.HasStop, call.HasPonderHit, call.RootFEN), 0, &call.SeqCall)
	call.TCall = w.now()
	w.out.Calls = append(w.out.Calls, call)
	w.cur = call
	before := b.VerifSnapshot()
	defer func() {
		if r := recover(); r != nil {
			if la, ok := r.(livenessAbort); ok {
				call.Panic = "liveness: " + la.detail
			} else if _, ok := r.(harnessKill); ok {
				call.Killed = true
			} else {
				call.Panic = fmt.Sprint(r)
				call.PanicStack = trimStack(debug.Stack())
			}
			score, mv, pm = 0, 0, 0
		} else if ok, what := snapshotsEqual(before, b.VerifSnapshot()); !ok {
			call.BoardDiff = what
		}
		call.Score, call.Move, call.Ponder = int(score), mv.String(), pm.String()
		call.Returned = true
		call.TRet = w.now()
		w.evAsync("GORET", fmt.Sprintf("score=%d move=%s ponder=%s polls=%d aborted=%v panic=%q", call.Score, call.Move, call.Ponder, call.Polls, call.Aborted, call.Panic), 0, &call.SeqRet)
		w.cur = nil
	}()

	if ws.inner == nil {
		// stub search
		var sg StubGo
		if w.stubIdx < len(w.sc.Stubs) {
			sg = w.sc.Stubs[w.stubIdx]
		}
		w.stubIdx++
		for _, l := range sg.Lines {
			if call.Opts.Output != nil {
				fmt.Fprintf(call.Opts.Output, "%s\n", l)
				w.evAsync("STUBLINE", l, 0, nil)
			}
		}
		var self <-chan time.Time
		if sg.SelfEndUS > 0 {
			// 333 ns off the microsecond grid: never ties with a driver timer or a scheduler sleep
			tm := time.NewTimer(time.Duration(sg.SelfEndUS)*time.Microsecond + 333)
			defer tm.Stop()
			self = tm.C
		}
		if call.Opts.Stop != nil {
			select {
			case <-call.Opts.Stop:
			case <-self:
			}
			// classify deterministically even if both became ready at once
			select {
			case <-call.Opts.Stop:
				call.TStop = w.now()
				call.Aborted = true
				w.evAsync("STUBSTOP", "", 0, nil)
				if sg.UnwindUS > 0 {
					// a real search needs a while to unwind: whatever the GUI sends
					// meanwhile finds the driver between "stop seen" and "bestmove"
					time.Sleep(time.Duration(sg.UnwindUS)*time.Microsecond + 667)
				}
			default:
				w.evAsync("STUBSELF", "", 0, nil)
			}
		}
		m, _ := parseStubMove(sg.Move)
		p, _ := parseStubMove(sg.Ponder)
		return 0, m, p
	}

	if call.Opts.Stop != nil {
		// the exact simulated instant at which the driver closes the stop channel
		go func(stop <-chan struct{}) {
			<-stop
			call.TStop = w.now()
		}(call.Opts.Stop)
	}
	a := &agent{coop: w.co, stop: make(chan struct{}), pollCap: 1 << 60, extStop: true}
	a.req.Nodes = -1
	registerAgent(ws.inner, a)
	w.curAgent = a
	defer func() {
		unregisterAgent(ws.inner)
		w.curAgent = nil
		call.Polls = a.polls
		call.Aborted = ws.inner.VerifAborted()
		call.AfterPolls = a.after
	}()
	return ws.inner.Go(b, opts...)
}

func parseStubMove(s string) (move.Move, error) {
	if s == "" || s == "0000" {
		return 0, nil
	}
	if len(s) < 4 {
		return 0, fmt.Errorf("bad stub move %q", s)
	}
	from := chess.Square((s[0] - 'a') + (s[1]-'1')*8)
	to := chess.Square((s[2] - 'a') + (s[3]-'1')*8)
	m := move.From(from) | move.To(to)
	if len(s) == 5 {
		m |= move.Promo(chess.Piece(strings.IndexByte(" pnbrq", s[4])))
	}
	return m, nil
}

// settle waits for quiescence and collects, in a fixed order and without ever
// blocking, what the parties are now waiting for.
func (w *uciWorld) settle() {
	for {
		synctest.Wait()
		progressed := w.flushAsync()
		w.inspect()
		if !w.overlapSeen && w.wr.overlap.Load() {
			w.overlapSeen = true
			w.ev("CONCWRITE", "", 0)
		}
		if len(w.pipe) > 0 {
			chunk := w.pipe[0]
			if w.safeToPump(chunk) {
				select {
				case w.rd.ch <- chunk:
					w.pipe = w.pipe[1:]
					w.readyokOwed += countLines(w.rdPartial+string(chunk), "isready")
					if strings.IndexByte(string(chunk), '\n') >= 0 {
						w.needInspect = true
					}
					w.rdPartial = w.afterChunk(chunk)
					synctest.Wait()
					w.ev("READ", string(chunk), 0)
					progressed = true
				default:
				}
			}
		} else if w.eofQueued && !w.eofSent && !w.hazard && !w.realSearchUnparked() {
			if firstToken(w.rdPartial) == "isready" {
				w.readyokOwed++ // an unterminated last line is still a line
			}
			close(w.rd.ch)
			w.eofSent = true
			progressed = true
		}
		if !w.hasPend {
			select {
			case p := <-w.wr.offer:
				w.pending, w.hasPend = p, true
				if string(p) == "readyok\n" {
					w.readyokOwed--
				}
				w.ev("WOFFER", string(p), 0)
				progressed = true
			default:
			}
		}
		if w.autoGrant && w.hasPend {
			w.ev("OUT", string(w.pending), 0)
			w.hasPend, w.pending = false, nil
			w.wr.grant <- true
			progressed = true
		}
		if !w.parked {
			select {
			case <-w.co.toSched:
				w.parked = true
				progressed = true
			default:
			}
		}
		if !w.finished {
			select {
			case <-w.done:
				w.finished = true
				w.ev("DONE", "", 0)
				progressed = true
			default:
			}
		}
		if !progressed {
			return
		}
	}
}

// inspect reads, from the goroutine dump, whether the interrupt goroutine is
// waiting in its select and whether the reader is holding an undelivered line.
func (w *uciWorld) inspect() {
	w.hazard, w.readerPending = false, false
	// the interrupt goroutine leaves its select only to act on an input line:
	// look at it from the moment a line is handed over during a search until it
	// has been seen back in the select (or gone)
	if !w.needInspect && w.readyokOwed <= 0 {
		return
	}
	if w.stackBuf == nil {
		w.stackBuf = make([]byte, 1<<18)
	}
	n := runtime.Stack(w.stackBuf, true)
	for n == len(w.stackBuf) { // truncated dump: would hide goroutines
		w.stackBuf = make([]byte, 2*len(w.stackBuf))
		n = runtime.Stack(w.stackBuf, true)
	}
	buf := w.stackBuf
	// The goroutine that multiplexes search end, timer and input during a
	// search (the "selector") is recognised structurally, not by name: a
	// goroutine inside handleGo that does not carry the search and has been
	// seen waiting in a select. It is a hazard when it is alive, still inside
	// handleGo, and not in its select. (Fallback for a selector never yet seen
	// in its select: a closure of handleGo that does not carry the search.)
	selectorAlive := false
	for _, g := range strings.Split(string(buf[:n]), "\n\n") {
		head, _, _ := strings.Cut(g, "\n")
		if !strings.Contains(head, "synctest bubble") {
			continue
		}
		if strings.Contains(g, ".readInput(") && strings.Contains(head, "[chan send") {
			w.readerPending = true
		}
		if !strings.Contains(g, ".handleGo") || strings.Contains(g, "wrapSearch).Go") {
			continue
		}
		var id int
		fmt.Sscanf(head, "goroutine %d ", &id)
		switch {
		case strings.Contains(head, "[select"):
			w.selectorID = id
			selectorAlive = true
		case id == w.selectorID || strings.Contains(g, ".handleGo.func"):
			w.hazard = true
			selectorAlive = true
		}
	}
	if !selectorAlive {
		w.selectorID = 0
	}
	if !w.hazard && !w.readerPending {
		w.needInspect = false
	}
}

// goReceived reports (1/0) whether the driver is inside its go handler: it
// has taken a go line in and has not yet answered it.
func (w *uciWorld) goReceived() int64 {
	buf := make([]byte, 1<<18)
	n := runtime.Stack(buf, true)
	for n == len(buf) {
		buf = make([]byte, 2*len(buf))
		n = runtime.Stack(buf, true)
	}
	for _, g := range strings.Split(string(buf[:n]), "\n\n") {
		head, _, _ := strings.Cut(g, "\n")
		if strings.Contains(head, "synctest bubble") && strings.Contains(g, ".handleGo") {
			return 1
		}
	}
	return 0
}

// realSearchUnparked: the real search is active but not parked at a poll
// (it is blocked writing to the output channel); once writes are granted it
// may run on and even finish without passing through the scheduler.
func (w *uciWorld) realSearchUnparked() bool {
	return w.cur != nil && w.curAgent != nil && !w.parked
}

// countLines counts the complete lines of t whose first word is kw.
func countLines(t, kw string) int {
	n := 0
	for {
		i := strings.IndexByte(t, '\n')
		if i < 0 {
			return n
		}
		if firstToken(t[:i]) == kw {
			n++
		}
		t = t[i+1:]
	}
}

// afterChunk returns the unterminated tail the reader holds after chunk.
func (w *uciWorld) afterChunk(chunk []byte) string {
	t := w.rdPartial + string(chunk)
	if i := strings.LastIndexByte(t, '\n'); i >= 0 {
		return t[i+1:]
	}
	return t
}

// safeToPump decides whether handing the next chunk of the pipe to the reader
// could make a second source of the interrupt goroutine's select ready while
// the first is still unconsumed.
func (w *uciWorld) safeToPump(chunk []byte) bool {
	if w.hazard && !w.hasPend {
		return false // see apply("run")
	}
	if !w.realSearchUnparked() {
		return true
	}
	if w.hazard {
		return false
	}
	t := w.rdPartial + string(chunk)
	if strings.Count(t, "\n") == 0 {
		return true
	}
	if strings.Count(t, "\n") > 1 {
		return false
	}
	switch firstToken(t) {
	case "stop", "quit", "ponderhit":
		return strings.HasSuffix(t, "\n")
	}
	return false
}

// maxBubbleUS keeps a session inside the range of the bubble's clock (the
// runtime's nanosecond counter overflows 292 years after the bubble's epoch).
const maxBubbleUS = 230 * 365 * 24 * 3600 * 1_000_000

// sleep lets simulated time pass, unless that would overflow the clock.
func (w *uciWorld) sleep(d time.Duration) bool {
	if w.now()+d.Microseconds() > maxBubbleUS {
		return false
	}
	time.Sleep(d)
	return true
}

// guiWrite appends bytes to the pipe and records an IN event for every line
// completed by them (the verdicts are stated over whole lines).
func (w *uciWorld) guiWrite(data string) {
	w.pipe = append(w.pipe, []byte(data))
	w.ev("GUIWRITE", data, 0)
	rest := w.partial + data
	for {
		i := strings.IndexByte(rest, '\n')
		if i < 0 {
			break
		}
		line := strings.TrimRight(rest[:i], "\r")
		w.ev("IN", line, 0)
		if firstToken(line) == "quit" {
			w.quitSent = true
		}
		rest = rest[i+1:]
	}
	w.partial = rest
}

func (w *uciWorld) apply(st UStep) bool {
	switch st.Op {
	case "in":
		if w.eofQueued {
			return false
		}
		w.guiWrite(st.Data)
	case "eof":
		if w.eofQueued {
			return false
		}
		w.eofQueued = true
		if w.partial != "" {
			// an unterminated last line is still a line for the scanner
			w.ev("IN", strings.TrimRight(w.partial, "\r"), 0)
			w.partial = ""
		}
		w.ev("EOF", "", 0)
	case "grant":
		n := max(1, st.N)
		any := false
		for i := 0; i < n; i++ {
			if !w.hasPend {
				break
			}
			if st.Fail && i == 0 {
				// injected fault: this write fails, the bytes never reach the GUI
				w.ev("WRITE-ERROR", string(w.pending), 0)
				w.hasPend, w.pending = false, nil
				w.wr.grant <- false
			} else {
				w.ev("OUT", string(w.pending), 0)
				w.hasPend, w.pending = false, nil
				w.wr.grant <- true
			}
			any = true
			w.settle()
		}
		return any
	case "run":
		// while the interrupt goroutine is blocked writing readyok the search
		// stays put; if it is blocked on anything else (never on the unchanged
		// tree) only the search itself can release it
		if !w.parked || (w.hazard && w.hasPend) {
			return false
		}
		if w.hazard {
			st.CostUS = 0
		}
		if st.CostUS > 0 {
			w.sleep(time.Duration(st.CostUS) * time.Microsecond)
			w.settle()
		}
		if w.parked {
			w.parked = false
			w.ev("RUN", "", int64(st.Polls))
			w.co.resumeN <- max(1, st.Polls)
		}
	case "tick":
		// (the selector blocked outside its select with nothing to write cannot
		// happen on the unchanged tree; there time may pass)
		if w.hazard && w.hasPend {
			return false
		}
		if st.DUS > 0 {
			if !w.sleep(time.Duration(st.DUS) * time.Microsecond) {
				return false
			}
			w.ev("TICK", "", st.DUS)
		}
	case "drain":
		w.drain(false)
	case "auto":
		// the GUI stops / resumes reading what the engine writes
		w.autoGrant = st.N != 0
		w.ev("AUTO", "", int64(st.N))
		w.settle()
	case "probe":
		w.ev("PROBE", "", w.goReceived())
	default:
		return false
	}
	return true
}

// owed reports whether a bestmove is outstanding from the GUI's view: more go
// lines were written than bestmove lines have been granted.
func (w *uciWorld) owed() bool {
	owed := 0
	for _, e := range w.out.Events {
		switch e.Kind {
		case "IN":
			if firstToken(e.Data) == "go" {
				owed++
			}
		case "OUT":
			for _, l := range strings.Split(e.Data, "\n") {
				if firstToken(l) == "bestmove" && owed > 0 {
					owed--
				}
			}
		}
	}
	return owed > 0
}

func firstToken(s string) string {
	f := strings.Fields(s)
	if len(f) == 0 {
		return ""
	}
	return f[0]
}

// drain lets the system run with a cooperative GUI (every write granted, the
// search never starved) until nothing is owed any more (or, with toEnd, until
// Run has returned). It is bounded: a search that keeps running without any
// reason to stop is not waited for.
func (w *uciWorld) drain(toEnd bool) {
	if w.stuck {
		return // nothing has been able to move since; do not burn simulated time
	}
	pollBudget := 400_000
	for iter := 0; iter < 100_000; iter++ {
		w.settle()
		if w.finished {
			return
		}
		if !toEnd && !w.owed() && !w.hasPend {
			return
		}
		switch {
		case w.hasPend:
			w.apply(UStep{Op: "grant"})
		case w.hazard && !w.parked:
			// the interrupt goroutine is blocked outside its select, nothing is
			// waiting to be written and the search is not at a poll: nobody can move
			w.ev("STUCK", "interrupt goroutine blocked outside its select", 0)
			w.stuck = true
			return
		case w.parked:
			if pollBudget <= 0 {
				w.ev("DRAIN-GIVEUP", "poll budget exhausted", 0)
				// unwind the search (harness action, recorded) and go on, so that the
				// session can end and no goroutine stays behind in the bubble
				w.parked = false
				w.co.resumeN <- -1
				pollBudget = 400_000
				continue
			}
			w.apply(UStep{Op: "run", Polls: 2000})
			pollBudget -= 2000
		default:
			// nothing is runnable now: let simulated time pass so that any armed
			// timer fires; if even that changes nothing the system is stuck
			before := len(w.out.Events)
			w.sleep(time.Hour)
			w.settle()
			if len(w.out.Events) == before && !w.hasPend && !w.parked && !w.finished {
				// longer than any clock the properties speak about (10^12 ms)
				w.sleep(33 * 365 * 24 * time.Hour)
				w.settle()
			}
			if len(w.out.Events) == before && !w.hasPend && !w.parked && !w.finished {
				w.ev("STUCK", "", 0)
				w.stuck = true
				return
			}
		}
	}
	w.ev("DRAIN-GIVEUP", "iteration bound", 0)
}

// drainNoTime grants writes and lets the search run until nothing can move
// any more, without letting simulated time pass.
func (w *uciWorld) drainNoTime() {
	budget := 400_000
	for iter := 0; iter < 100_000 && budget > 0; iter++ {
		w.settle()
		switch {
		case w.finished:
			return
		case w.hasPend:
			w.apply(UStep{Op: "grant"})
		case w.parked && !(w.hazard && w.hasPend):
			w.apply(UStep{Op: "run", Polls: 2000})
			budget -= 2000
		default:
			return
		}
	}
}

// chooser produces the next step given the world (generator) or replays a
// recorded list.
type chooser interface {
	next(w *uciWorld) (UStep, bool)
}

type replayChooser struct {
	steps []UStep
	i     int
}

func (r *replayChooser) next(*uciWorld) (UStep, bool) {
	if r.i >= len(r.steps) {
		return UStep{}, false
	}
	r.i++
	return r.steps[r.i-1], true
}

// RunUCIScenario runs one session inside the current synctest bubble. With
// ch == nil the scenario's recorded steps are replayed.
func RunUCIScenario(sc *UCIScenario, ch chooser, keepEvents bool) (out *UCIOutcome) {
	applySpsa(nil) // spsa build: tunables are process globals, every session starts from the defaults
	w := newUCIWorld(sc)
	if ch == nil {
		ch = &replayChooser{steps: sc.Steps}
	}
	w.play(ch)
	return w.finish(true)
}

// newUCIWorld starts a driver (with its search) inside the current bubble.
func newUCIWorld(sc *UCIScenario) *uciWorld {
	out := &UCIOutcome{Stats: map[string]int64{}}
	w := &uciWorld{sc: sc, out: out, t0: time.Now(), errW: &bytes.Buffer{}, autoGrant: sc.AutoGrant}
	w.rd = &simReader{ch: make(chan []byte)}
	w.wr = &simWriter{offer: make(chan []byte), grant: make(chan bool), noblock: writerNoBlock}
	w.wr.sink = func(p []byte) { w.evAsync("OUT", string(p), 0, nil) }
	w.co = &coop{toSched: make(chan struct{}), resume: make(chan struct{}), resumeN: make(chan int)}
	w.done = make(chan struct{})
	ws := &wrapSearch{w: w}
	if !sc.Stub {
		tt := sc.TTBytes
		if tt == 0 {
			tt = 1 << 20
		}
		ws.inner = search.New(tt)
	}
	d := uci.NewDriver(uci.WithInput(w.rd), uci.WithOutput(w.wr), uci.WithError(w.errW), uci.WithSearch(ws))
	go func() {
		defer close(w.done)
		d.Run()
	}()
	return w
}

// play applies the steps a chooser yields until it has none left.
func (w *uciWorld) play(ch chooser) {
	refused := 0
	for {
		w.settle()
		st, ok := ch.next(w)
		if !ok {
			break
		}
		if w.apply(st) {
			w.out.Steps = append(w.out.Steps, st)
			refused = 0
		} else if refused++; refused > 500 {
			// a generator that keeps proposing steps the world refuses: end the session
			w.stat("generator_stalled", 1)
			break
		}
	}
}

// finish ends the session: whatever the script did, the GUI now goes away (if
// it has not already) and reads everything the engine still writes.
func (w *uciWorld) finish(leakCheck bool) *UCIOutcome {
	out := w.out
	w.settle()
	if w.quitSent && !w.eofQueued {
		// quit must end the driver by itself: the GUI keeps the pipe open and
		// reads what the engine still writes; only then does it close its end
		w.drainNoTime()
		if !w.finished {
			w.ev("QUIT-IGNORED", "", 0)
		}
	}
	if !w.eofQueued {
		w.apply(UStep{Op: "eof"})
		out.Steps = append(out.Steps, UStep{Op: "eof"})
	}
	w.drain(true)
	w.settle()
	out.Done = w.finished
	out.SimUS = w.now()
	if w.finished && leakCheck {
		if leaks := bubbleGoroutines(); len(leaks) > 0 {
			w.ev("LEAK", strings.Join(leaks, " || "), int64(len(leaks)))
		}
	}
	return out
}

// RunUCITwins is the C08 leg through the driver: the session is generated on
// driver A alone; its recorded steps are then replayed on further drivers that
// share the bubble and take turns step by step (so that every quantum of one
// engine's search is followed by a quantum of the other's). Writes are granted
// at once in this leg (no output back-pressure, hence no select hazard) and
// the sessions carry no clock-dependent request, so the output streams of all
// drivers must be equal but for the time field.
func RunUCITwins(sc *UCIScenario, mk func(w *uciWorld) chooser, n int) (a *UCIOutcome, twins []*UCIOutcome) {
	applySpsa(nil)
	wa := newUCIWorld(sc)
	wa.autoGrant = true
	wa.play(mk(wa))
	a = wa.finish(true)
	steps := append([]UStep(nil), a.Steps...)
	applySpsa(nil)
	var ws []*uciWorld
	for i := 0; i < n; i++ {
		w := newUCIWorld(sc)
		w.autoGrant = true
		w.twinOf = wa
		ws = append(ws, w)
	}
	// The twins' GUI lags: after every step it lets 10 simulated ms pass before
	// it reads what the engine wrote (driver A's GUI read every line at once).
	// The sessions carry no clock-dependent request, so this must not change a
	// single reported line.
	readAll := func(w *uciWorld) {
		for i := 0; i < 10_000; i++ {
			w.settle()
			if !w.hasPend {
				return
			}
			w.apply(UStep{Op: "grant"})
		}
	}
	for _, w := range ws {
		w.autoGrant = false
	}
	for _, st := range steps {
		for _, w := range ws {
			readAll(w)
			if w.apply(st) {
				w.out.Steps = append(w.out.Steps, st)
			}
			w.settle() // the effects of the step unfold as far as the unread output allows
			w.sleep(10 * time.Millisecond)
			readAll(w)
		}
	}
	for _, w := range ws {
		w.autoGrant = true
	}
	for i, w := range ws {
		twins = append(twins, w.finish(i == len(ws)-1))
	}
	return a, twins
}

// outLines is the sequence of lines the GUI received, time field masked.
func outLines(out *UCIOutcome) []string {
	var ls []string
	for _, e := range out.Events {
		if e.Kind == "OUT" {
			for _, l := range strings.Split(strings.TrimSuffix(e.Data, "\n"), "\n") {
				if firstToken(l) == "info" {
					if il := parseInfo(l); !(il.hasDepth || il.hasNodes || il.hasPV) {
						continue
					}
					l = "info " + lineKey(l)
				}
				ls = append(ls, l)
			}
		}
	}
	return ls
}

// bubbleGoroutines lists goroutines of the current synctest bubble other than
// the caller (after Run has returned there must be none).
func bubbleGoroutines() []string {
	buf := make([]byte, 1<<20)
	n := runtime.Stack(buf, true)
	for n == len(buf) {
		buf = make([]byte, 2*len(buf))
		n = runtime.Stack(buf, true)
	}
	var out []string
	for i, g := range strings.Split(string(buf[:n]), "\n\n") {
		if i == 0 {
			continue // the caller
		}
		head, _, _ := strings.Cut(g, "\n")
		if strings.Contains(head, "synctest bubble") {
			var fr []string
			for _, l := range strings.Split(g, "\n") {
				if strings.Contains(l, "chess-3/") && !strings.HasPrefix(l, "\t") {
					fr = append(fr, strings.TrimSpace(l))
				}
			}
			if len(fr) == 0 {
				continue // testing/synctest plumbing, not the driver
			}
			out = append(out, head+" "+strings.Join(fr, " < "))
		}
	}
	return out
}
