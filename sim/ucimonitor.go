package sim

import (
	"fmt"
	"strconv"
	"strings"

	"verif/sim/ref"
)

// guiGame reconstructs, from the text of a `position` command, the game the
// GUI set up (reference model only).
func guiGame(line string) (*ref.Game, error) {
	f := strings.Fields(line)
	if len(f) < 2 || f[0] != "position" {
		return nil, fmt.Errorf("not a position command: %q", line)
	}
	var g *ref.Game
	rest := f[2:]
	switch f[1] {
	case "startpos":
		g = ref.NewGame(ref.MustFEN(ref.StartFEN))
	case "fen":
		if len(f) < 8 {
			return nil, fmt.Errorf("short fen in %q", line)
		}
		p, err := ref.ParseFEN(strings.Join(f[2:8], " "))
		if err != nil {
			return nil, err
		}
		g = ref.NewGame(p)
		rest = f[8:]
	default:
		return nil, fmt.Errorf("bad position command %q", line)
	}
	if len(rest) > 0 {
		if rest[0] != "moves" {
			return nil, fmt.Errorf("bad position command %q", line)
		}
		for _, ms := range rest[1:] {
			m, err := ref.ParseMove(ms)
			if err != nil || !g.Cur().IsLegal(m) {
				return nil, fmt.Errorf("move %s in %q is not legal", ms, line)
			}
			g.Push(m)
		}
	}
	return g, nil
}

// goWindow is everything between one go line and the next.
type goWindow struct {
	goLine     string
	goSeq      int
	goT        int64
	hitT       int64 // time of the ponderhit line, -1 if none
	game       *ref.Game
	infos      []string
	bestmoves  []string
	infoAfter  bool
	call       *GoCall
	stopReason string // first of stop|quit|eof written by the GUI inside the window
	ponderOpt  bool   // value of the Ponder option when the go was sent
}

var engineKeywords = map[string]bool{"id": true, "option": true, "uciok": true, "readyok": true, "info": true, "bestmove": true}

// monitorUCI evaluates the protocol oracle (C13) and, per search, the C06/C07
// clauses over the recorded history of one session.
func monitorUCI(sc *UCIScenario, out *UCIOutcome) (vs []Violation, windows []*goWindow) {
	add := func(prop, kind, detail string, seq int) {
		vs = append(vs, Violation{Property: prop, Kind: kind, Detail: detail, Step: seq})
	}
	// a panic inside the search makes everything after it meaningless
	for _, c := range out.Calls {
		if c.Panic != "" {
			if strings.HasPrefix(c.Panic, "liveness: ") {
				add("C13", "liveness", c.Panic+" root="+c.RootFEN, c.SeqCall)
				add("C06", "liveness", c.Panic+" root="+c.RootFEN, c.SeqCall)
			} else {
				add("C13", "panic", c.Panic+" @ "+c.PanicStack+" root="+c.RootFEN, c.SeqCall)
				add("C06", "panic", c.Panic+" @ "+c.PanicStack+" root="+c.RootFEN, c.SeqCall)
			}
			return vs, nil
		}
	}

	// After an injected write error the GUI has lost bytes: the accounting
	// clauses cannot be judged any more (the statement is about command timing,
	// not about a broken pipe). What still must hold is that the driver neither
	// crashes nor hangs and that quit / end of input terminate it with all its
	// goroutines - checked below on the same history.
	for _, e := range out.Events {
		if e.Kind == "WRITE-ERROR" {
			return monitorAfterWriteFault(out)
		}
	}
	game := ref.NewGame(ref.MustFEN(ref.StartFEN))
	// cur is the window of the last go line written; ans the oldest window
	// still waiting for its bestmove (a GUI may write the next position and go
	// right behind a stop, before it has read the bestmove: the driver queues
	// them, so answers come in the order of the go lines)
	var cur, ans *goWindow
	ansIdx := 0
	owed := false
	advance := func() {
		for ansIdx < len(windows) && len(windows[ansIdx].bestmoves) > 0 {
			ansIdx++
		}
		ans, owed = nil, false
		if ansIdx < len(windows) {
			ans, owed = windows[ansIdx], true
		}
	}
	isready, readyok := 0, 0
	allowUnknown := 0
	ponderOpt := false
	callIdx := 0
	stubLineIdx := map[*goWindow]int{}
	giveup := false
	stopIgnored := false
	quitSeen := false
	for _, e := range out.Events {
		switch e.Kind {
		case "IN":
			tok := strings.Fields(e.Data)
			if len(tok) == 0 || quitSeen {
				continue // nothing after quit asks for an answer
			}
			if tok[0] == "quit" {
				quitSeen = true
			}
			switch tok[0] {
			case "position":
				if g, err := guiGame(e.Data); err == nil {
					game = g
				} else {
					add("HARNESS", "bad-script", err.Error(), e.Seq)
				}
			case "go":
				if owed && cur.stopReason != "stop" {
					add("HARNESS", "bad-script", "go sent while a bestmove is owed and no stop was sent", e.Seq)
				}
				cur = &goWindow{goLine: e.Data, goSeq: e.Seq, goT: e.T, hitT: -1, game: game.Clone(), ponderOpt: ponderOpt}
				windows = append(windows, cur)
				advance()
			case "ponderhit":
				if cur != nil && owed && cur.hitT < 0 {
					cur.hitT = e.T
				}
			case "stop", "quit":
				if cur != nil && owed && cur.stopReason == "" {
					cur.stopReason = tok[0]
				}
			case "isready":
				isready++
			case "fen", "eval":
				allowUnknown++
			case "perft":
				allowUnknown += 2
			case "spsa":
				allowUnknown += 64
			case "setoption":
				if len(tok) >= 5 && tok[1] == "name" && tok[2] == "Ponder" && tok[3] == "value" {
					switch tok[4] {
					case "true", "True":
						ponderOpt = true
					case "false", "False":
						ponderOpt = false
					}
				}
			}
		case "EOF":
			if cur != nil && owed && cur.stopReason == "" {
				cur.stopReason = "eof"
			}
		case "GOCALL":
			if callIdx < len(out.Calls) {
				c := out.Calls[callIdx]
				callIdx++
				var nw *goWindow
				for _, w := range windows {
					if w.call == nil {
						nw = w
						break
					}
				}
				if nw != nil {
					nw.call = c
				} else {
					add("C13", "search-without-go", "the driver started a search that no go command asked for", e.Seq)
				}
			}
		case "OUT":
			if !strings.HasSuffix(e.Data, "\n") {
				add("C13", "torn-line", fmt.Sprintf("a write to the GUI does not end in a newline: %q", e.Data), e.Seq)
			}
			for _, l := range strings.Split(strings.TrimSuffix(e.Data, "\n"), "\n") {
				kw := firstToken(l)
				switch kw {
				case "info":
					if il := parseInfo(l); !(il.hasDepth || il.hasNodes || il.hasPV) {
						// not a search report (e.g. `info string ...`): the statement is silent about it
						break
					}
					if !owed || ans == nil {
						add("C13", "info-outside-search", fmt.Sprintf("info line outside any search window (after its bestmove or before any go): %q", l), e.Seq)
					} else {
						ans.infos = append(ans.infos, l)
					}
					if sc.Stub && ans != nil && ans.call != nil {
						want := stubLines(sc, out, ans.call)
						i := stubLineIdx[ans]
						if i >= len(want) || want[i] != l {
							w := "<none>"
							if i < len(want) {
								w = want[i]
							}
							add("C13", "torn-line", fmt.Sprintf("info line %d of the search reads %q, the search wrote %q", i, l, w), e.Seq)
						}
						stubLineIdx[ans] = i + 1
					}
				case "bestmove":
					if !owed || ans == nil {
						add("C13", "unsolicited-bestmove", fmt.Sprintf("bestmove without an outstanding go: %q", l), e.Seq)
					} else {
						ans.bestmoves = append(ans.bestmoves, l)
						if sc.Stub && ans.call != nil {
							if want := stubLines(sc, out, ans.call); stubLineIdx[ans] != len(want) {
								add("C13", "lost-info", fmt.Sprintf("bestmove came after %d of the %d info lines the search wrote", stubLineIdx[ans], len(want)), e.Seq)
							}
						}
						advance()
					}
				case "readyok":
					readyok++
					if readyok > isready {
						add("C13", "readyok-unsolicited", fmt.Sprintf("readyok #%d with only %d isready sent", readyok, isready), e.Seq)
					}
				default:
					if !engineKeywords[kw] {
						if allowUnknown > 0 {
							allowUnknown--
						} else {
							add("C13", "torn-line", fmt.Sprintf("line does not open with an engine-to-GUI keyword: %q", l), e.Seq)
						}
					}
				}
			}
		case "LEAK":
			add("C13", "goroutine-leak", fmt.Sprintf("%d goroutine(s) of the driver still alive after Run returned: %s", e.N, e.Data), e.Seq)
		case "CONCWRITE":
			add("C13", "concurrent-write", "two goroutines of the driver were inside Write of the output stream at the same time (one parked waiting for the GUI to read, another entering): a race on the caller's io.Writer, lines can tear or overtake each other", e.Seq)
		case "STUCK":
			add("C13", "deadlock", "no party can make progress and no timer is armed, but Run has not returned / a bestmove is owed", e.Seq)
		case "QUIT-IGNORED":
			add("C13", "no-termination-on-quit", "quit was sent and every line the engine wrote was read, but Run had not returned while the input stayed open", e.Seq)
		case "DRAIN-GIVEUP":
			if ans != nil && owed && ans.stopReason != "" {
				// the GUI had told the engine to stop (or went away) and the search
				// was still polling a few hundred thousand polls later
				add("C13", "liveness", fmt.Sprintf("search still running %s polls after %q was sent during it (go=%q)", "400000", ans.stopReason, ans.goLine), e.Seq)
				stopIgnored = true
			} else {
				giveup = true
			}
		}
	}
	if stopIgnored {
		// everything after the harness unwound the search is an artefact
		return vs, windows
	}
	if giveup {
		// a search with no reason to end was still running when the harness
		// stopped waiting: inconclusive, reported as harness trouble
		add("HARNESS", "drain-giveup", "search still running at the end of the poll budget with a cooperative GUI", 0)
		return vs, windows
	}
	if !out.Done {
		already := false
		for _, v := range vs {
			if v.Kind == "deadlock" {
				already = true
			}
		}
		if !already {
			add("C13", "no-termination", "Run did not return after end of input with every write granted", len(out.Events))
		}
	}
	if readyok != isready {
		add("C13", "readyok-count", fmt.Sprintf("%d isready sent, %d readyok received", isready, readyok), len(out.Events))
	}
	for _, w := range windows {
		if len(w.bestmoves) != 1 {
			add("C13", "bestmove-count", fmt.Sprintf("go answered by %d bestmove lines: go=%q answers=%q", len(w.bestmoves), w.goLine, w.bestmoves), w.goSeq)
			continue
		}
		if w.call == nil || !w.call.Returned {
			add("C13", "bestmove-without-search", fmt.Sprintf("bestmove %q printed but the search call did not return", w.bestmoves[0]), w.goSeq)
			continue
		}
		// a request without a clock of the mover and without a move time must
		// reach the search without a time limit: otherwise its result depends on
		// the wall clock (C08)
		// (a limit beyond every clock value the properties speak about, 10^12 ms,
		// cannot bind and is not one)
		if clk := parseGoClock(w.goLine); clk.movetime <= 0 && w.call.Opts.SoftTime != 0 && w.call.Opts.SoftTime < 10_000_000_000_000 {
			own := clk.btime
			if w.game.Cur().White {
				own = clk.wtime
			}
			if own <= 0 {
				add("C08", "clock-on-untimed-go", fmt.Sprintf("go=%q carries no clock of the side to move and no move time, but the search was given a soft time limit of %d ms", w.goLine, w.call.Opts.SoftTime), w.goSeq)
			}
		}
		bm := strings.Fields(w.bestmoves[0])
		res := &SearchResult{Move: "", Ponder: "0000", Score: w.call.Score, Aborted: w.call.Aborted, Lines: w.infos, BoardDiff: w.call.BoardDiff}
		if len(bm) >= 2 {
			res.Move = bm[1]
		}
		if len(bm) >= 4 && bm[2] == "ponder" {
			res.Ponder = bm[3]
		}
		if len(bm) != 2 && !(len(bm) == 4 && bm[2] == "ponder") {
			add("C13", "torn-line", fmt.Sprintf("malformed bestmove line %q", w.bestmoves[0]), w.goSeq)
		}
		if res.Move != w.call.Move {
			add("C13", "torn-line", fmt.Sprintf("bestmove line %q does not carry the move the search returned (%s)", w.bestmoves[0], w.call.Move), w.goSeq)
		}
		if !sc.Stub {
			req := Request{Output: true}
			vs = append(vs, checkC06(w.game, req, res, w.goSeq)...)
			vs = append(vs, checkC07(w.game, req, res, w.goSeq)...)
		}
	}
	return vs, windows
}

// stubLines returns the lines the stub wrote during the given call.
func stubLines(sc *UCIScenario, out *UCIOutcome, c *GoCall) []string {
	var ls []string
	for _, e := range out.Events {
		if e.Kind == "STUBLINE" && e.Seq > c.SeqCall && (c.SeqRet == 0 || e.Seq < c.SeqRet) {
			ls = append(ls, e.Data)
		}
	}
	return ls
}

// goClock is the clock state a go line reports.
type goClock struct {
	wtime, btime, winc, binc, movetime int64
	has                                map[string]bool
	ponder                             bool
}

func parseGoClock(line string) goClock {
	c := goClock{has: map[string]bool{}}
	f := strings.Fields(line)
	for i := 1; i < len(f); i++ {
		switch f[i] {
		case "ponder":
			c.ponder = true
		case "wtime", "btime", "winc", "binc", "movetime":
			if i+1 < len(f) {
				v, err := strconv.ParseInt(f[i+1], 10, 64)
				if err == nil {
					c.has[f[i]] = true
					switch f[i] {
					case "wtime":
						c.wtime = v
					case "btime":
						c.btime = v
					case "winc":
						c.winc = v
					case "binc":
						c.binc = v
					case "movetime":
						c.movetime = v
					}
				}
				i++
			}
		}
	}
	return c
}

// monitorAfterWriteFault keeps only the clauses that survive a lost write:
// no deadlock, termination on quit / end of input, no goroutine left.
func monitorAfterWriteFault(out *UCIOutcome) (vs []Violation, windows []*goWindow) {
	add := func(kind, detail string, seq int) {
		vs = append(vs, Violation{Property: "C13", Kind: kind, Detail: detail + " (after an injected write error)", Step: seq})
	}
	for _, e := range out.Events {
		switch e.Kind {
		case "LEAK":
			add("goroutine-leak", fmt.Sprintf("%d goroutine(s) of the driver still alive after Run returned: %s", e.N, e.Data), e.Seq)
		case "QUIT-IGNORED":
			add("no-termination-on-quit", "quit was sent and every line the engine wrote was read, but Run had not returned while the input stayed open", e.Seq)
		case "DRAIN-GIVEUP":
			return nil, nil
		}
		// (a STUCK event before the end of input only means that the GUI model
		// waits for an answer the fault swallowed: the driver itself is idle)
	}
	if !out.Done && len(vs) == 0 {
		add("no-termination", "Run did not return after end of input with every write granted", len(out.Events))
	}
	return vs, nil
}
