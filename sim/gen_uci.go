package sim

import (
	"fmt"
	"math/rand/v2"
	"strings"

	"verif/sim/ref"
)

// UCIGenCfg is the swarm configuration of one generated session.
type UCIGenCfg struct {
	Stub       bool    `json:"stub"`
	MaxTurns   int     `json:"max_turns"`
	PStall     float64 `json:"p_stall"`
	PFrag      float64 `json:"p_frag"`
	PIsready   float64 `json:"p_isready"`
	PQuitMid   float64 `json:"p_quit_mid"`
	PEOFMid    float64 `json:"p_eof_mid"`
	PStop      float64 `json:"p_stop"`
	Ponder     bool    `json:"ponder"`
	Extremes   bool    `json:"extremes"`
	Quantum    int     `json:"quantum"` // 0 tiny, 1 small, 2 mixed, 3 large
	PollCostUS int64   `json:"poll_cost_us"`
	Timed      bool    `json:"timed"` // favour clock-based go commands
	CRLF       bool    `json:"crlf"`
	Spsa       bool    `json:"spsa"`
	Hash       bool    `json:"hash"`
	SweepStop  int     `json:"sweep_stop"`            // >0: in every search SweepCmd is sent exactly when the search is parked before this poll (systematic sweep)
	SweepCmd   string  `json:"sweep_cmd,omitempty"`   // stop (default) | quit | eof | isready | ponderhit
	PWriteErr  float64 `json:"p_write_err,omitempty"` // per grant: the write fails instead (fault)
	Merge      bool    `json:"merge,omitempty"`       // several lines per write
	NoEOL      bool    `json:"no_eol,omitempty"`      // the last line of the session is not newline-terminated
	NoClock    bool    `json:"no_clock,omitempty"`    // only requests whose outcome cannot depend on the clock (driver twins)
}

func drawUCIGenCfg(rng *rand.Rand, stub bool) UCIGenCfg {
	c := UCIGenCfg{Stub: stub, MaxTurns: 1 + rng.IntN(5)}
	c.PStall = pick(rng, []float64{0, 0, 0.05, 0.2, 0.5})
	c.PFrag = pick(rng, []float64{0, 0, 0.2, 0.8})
	c.PIsready = pick(rng, []float64{0, 0.3, 1, 3})
	c.PQuitMid = pick(rng, []float64{0, 0, 0.05, 0.3})
	c.PEOFMid = pick(rng, []float64{0, 0, 0.05, 0.3})
	c.PStop = pick(rng, []float64{0, 0.3, 1, 3})
	c.Ponder = rng.IntN(3) == 0
	c.Extremes = rng.IntN(4) == 0
	c.Quantum = rng.IntN(4)
	c.PollCostUS = pick(rng, []int64{0, 0, 1, 5, 50})
	c.Timed = rng.IntN(3) == 0
	c.CRLF = rng.IntN(8) == 0
	c.Spsa = SpsaBuild && rng.IntN(2) == 0
	c.Hash = rng.IntN(4) == 0
	if rng.IntN(8) == 0 {
		c.PWriteErr = pick(rng, []float64{0.01, 0.05, 0.3})
	}
	c.Merge = rng.IntN(3) == 0
	c.NoEOL = rng.IntN(6) == 0
	return c
}

type genGo struct {
	ponder    bool
	hitSent   bool
	stopSent  bool
	steps     int
	limit     int
	drained   bool
	swept     bool
	timed     bool // the go carries a usable clock of the mover or a move time of at most 10^7 ms
	waiting   bool // the GUI sends no stop: it waits for the engine's own deadline
	bigQuanta bool
}

// uciGen is the PRNG-driven GUI and scheduler policy: it only ever emits
// protocol-conforming input, and only stop/isready/ponderhit/quit/EOF while a
// bestmove is owed.
type uciGen struct {
	rng         *rand.Rand
	cfg         UCIGenCfg
	sc          *UCIScenario
	queue       []UStep
	stage       int // 0 preamble, 1 between turns, 2 go issued
	game        *ref.Game
	turns       int
	stall       int
	cur         genGo
	ended       bool
	ponderOn    bool
	evSeen      int
	lastBest    string
	goCount     int
	newGameNext bool
	mergeLines  bool
}

func newUCIGen(rng *rand.Rand, cfg UCIGenCfg, sc *UCIScenario) *uciGen {
	g := &uciGen{rng: rng, cfg: cfg, sc: sc, game: ref.NewGame(ref.MustFEN(ref.StartFEN))}
	g.mergeLines = cfg.Merge
	return g
}

func (g *uciGen) eol() string {
	if g.cfg.CRLF {
		return "\r\n"
	}
	return "\n"
}

// send queues a line, possibly fragmented with pauses in between.
func (g *uciGen) send(line string) {
	if line != "" && g.rng.IntN(12) == 0 {
		// arbitrary white space between and around tokens is allowed
		switch g.rng.IntN(5) {
		case 0:
			line += "\t"
		case 1:
			line += " "
		case 2:
			line = "\t" + line
		case 3:
			line = strings.Replace(line, " ", "\t", 1) + pick(g.rng, []string{"", "\t"})
		case 4:
			line = strings.Replace(line, " ", " \t ", 1)
		}
	}
	data := line + g.eol()
	if g.rng.Float64() < g.cfg.PFrag && len(data) > 2 {
		n := 1 + g.rng.IntN(3)
		pos := 0
		for i := 0; i < n && pos < len(data)-1; i++ {
			cut := pos + 1 + g.rng.IntN(len(data)-1-pos)
			g.queue = append(g.queue, UStep{Op: "in", Data: data[pos:cut]})
			if g.rng.IntN(2) == 0 {
				g.queue = append(g.queue, UStep{Op: "tick", DUS: int64(1 + g.rng.IntN(5000))})
			}
			pos = cut
		}
		g.queue = append(g.queue, UStep{Op: "in", Data: data[pos:]})
		return
	}
	g.queue = append(g.queue, UStep{Op: "in", Data: data})
}

func (g *uciGen) pop() UStep {
	s := g.queue[0]
	g.queue = g.queue[1:]
	// a GUI may write several lines at once: merge adjacent whole-line writes
	for s.Op == "in" && strings.HasSuffix(s.Data, "\n") && len(g.queue) > 0 && g.queue[0].Op == "in" &&
		strings.HasSuffix(g.queue[0].Data, "\n") && g.mergeLines && g.rng.IntN(2) == 0 {
		s.Data += g.queue[0].Data
		g.queue = g.queue[1:]
	}
	return s
}

func (g *uciGen) quantum() int {
	r := g.rng
	switch g.cfg.Quantum {
	case 0:
		return 1 + r.IntN(3)
	case 1:
		return 1 + r.IntN(50)
	case 3:
		return 500 + r.IntN(4500)
	}
	switch x := r.IntN(10); {
	case x < 4:
		return 1 + r.IntN(3)
	case x < 7:
		return 4 + r.IntN(47)
	case x < 9:
		return 51 + r.IntN(950)
	}
	return 1001 + r.IntN(4000)
}

var extremeNums = []string{"0", "1", "2", "63", "64", "65", "100", "127", "128", "129", "200", "255", "256", "257", "300", "1000", "32767", "32768", "65536",
	"2147483647", "2147483648", "4294967296", "9223372036854775807", "9223372036854775808", "18446744073709551616", "100000000000000000000"}

func (g *uciGen) goLine() (line string, selfEnds bool, ponder bool) {
	r := g.rng
	num := func(small []int) string {
		if g.cfg.Extremes && r.IntN(3) == 0 {
			return pick(r, extremeNums)
		}
		return fmt.Sprint(pick(r, small))
	}
	// for arguments other than depth anything numeric-looking may be sent
	wild := func(small []int) string {
		if g.cfg.Extremes && r.IntN(6) == 0 {
			return pick(r, []string{"-1", "-30", "-2147483649", "-9223372036854775808", "+5", "007", "1e3", "0x10", "abc", "12abc", "4.5"})
		}
		return num(small)
	}
	kind := r.IntN(10)
	if g.cfg.Timed && r.IntN(3) != 0 {
		kind = 5 + r.IntN(3)
	}
	if g.cfg.Ponder && r.IntN(3) == 0 {
		kind = 8
	}
	if g.cfg.NoClock {
		switch kind {
		case 5, 6, 7:
			if r.IntN(3) == 0 {
				// a clock so large that it cannot bind, with a small depth limit: the
				// outcome still cannot depend on the time that passes
				return fmt.Sprintf("go wtime 1000000000 btime 1000000000 winc %d binc %d depth %d", pick(r, []int{0, 1000}), pick(r, []int{0, 1000}), 1+r.IntN(4)), true, false
			}
			kind = r.IntN(5)
		case 8:
			return fmt.Sprintf("go ponder depth %d", 1+r.IntN(5)), false, true
		}
	}
	switch kind {
	case 0, 1, 2:
		d := num([]int{1, 1, 2, 2, 3, 3, 4, 5, 6, 8, 12, 30, 64})
		if d == "0" {
			d = "1" // the property speaks about depths of at least 1
		}
		return "go depth " + d, len(d) == 1 && d[0] <= '5', false
	case 3, 4:
		n := wild([]int{0, 1, 2, 5, 17, 100, 500, 1000, 3000, 8000, 100000})
		return "go nodes " + n, len(n) <= 4 && n[0] != '-', false
	case 5:
		mt := wild([]int{1, 2, 10, 50, 200, 1000, 60000})
		return "go movetime " + mt, mt[0] >= '1' && mt[0] <= '9' && len(mt) < 6, false
	case 6, 7:
		w := wild([]int{1, 5, 29, 30, 31, 60, 61, 100, 1000, 10000, 300000})
		b := wild([]int{1, 5, 29, 30, 31, 60, 61, 100, 1000, 10000, 300000})
		s := fmt.Sprintf("go wtime %s btime %s", w, b)
		if r.IntN(2) == 0 {
			s += fmt.Sprintf(" winc %s binc %s", num([]int{0, 1, 100, 2000}), num([]int{0, 1, 100, 2000}))
		}
		if r.IntN(5) == 0 {
			s += fmt.Sprintf(" movestogo %d", pick(r, []int{1, 1, 2, 10, 40}))
		}
		if r.IntN(4) == 0 {
			s += " depth " + fmt.Sprint(1+r.IntN(5))
		}
		return s, true, false
	case 8:
		s := "go ponder"
		if r.IntN(4) != 0 {
			s += fmt.Sprintf(" wtime %d btime %d", pick(r, []int{50, 500, 5000, 60000}), pick(r, []int{50, 500, 5000, 60000}))
		}
		if r.IntN(3) == 0 {
			s += fmt.Sprintf(" depth %d", 1+r.IntN(4))
		}
		if r.IntN(4) == 0 {
			s += fmt.Sprintf(" nodes %d", pick(r, []int{1, 100, 2000}))
		}
		return s, false, true
	default:
		if r.IntN(2) == 0 {
			return "go infinite", false, false
		}
		return fmt.Sprintf("go depth %d nodes %d", 1+r.IntN(6), pick(r, []int{1, 50, 400, 5000})), true, false
	}
}

func (g *uciGen) positionLine() string {
	r := g.rng
	// continue the current game with the engine's move, or set up a new root
	if g.lastBest != "" && r.IntN(3) != 0 {
		if m, err := ref.ParseMove(g.lastBest); err == nil && !m.Null() && g.game.Cur().IsLegal(m) {
			g.game.Push(m)
			if l := g.game.Cur().Legal(); len(l) > 0 && r.IntN(4) != 0 {
				g.game.Push(pick(r, l))
			}
		} else {
			g.newRoot()
		}
	} else {
		g.newRoot()
	}
	g.lastBest = ""
	var sb strings.Builder
	if g.game.Start.FEN() == ref.StartFEN && r.IntN(4) != 0 {
		sb.WriteString("position startpos")
	} else {
		sb.WriteString("position fen " + g.game.Start.FEN())
	}
	if len(g.game.Moves) > 0 {
		sb.WriteString(" moves")
		for _, m := range g.game.Moves {
			sb.WriteString(" " + m.String())
		}
	}
	return sb.String()
}

func (g *uciGen) newRoot() {
	root := genRoot(g.rng, "")
	if g.rng.IntN(40) == 0 {
		root = genRoot(g.rng, "long-game")
	}
	g.game = root.Game()
	g.newGameNext = g.rng.IntN(2) == 0
}

func (g *uciGen) next(w *uciWorld) (UStep, bool) {
	if len(g.queue) > 0 {
		return g.pop(), true
	}
	if g.ended || w.finished {
		return UStep{}, false
	}
	// learn the engine's last answer
	for ; g.evSeen < len(w.out.Events); g.evSeen++ {
		e := w.out.Events[g.evSeen]
		if e.Kind == "OUT" {
			for _, l := range strings.Split(e.Data, "\n") {
				if f := strings.Fields(l); len(f) >= 2 && f[0] == "bestmove" {
					g.lastBest = f[1]
				}
			}
		}
	}
	if w.owed() {
		g.during(w)
	} else {
		g.idle(w)
	}
	if len(g.queue) == 0 {
		if g.ended {
			return UStep{}, false
		}
		g.queue = append(g.queue, UStep{Op: "tick", DUS: 1})
	}
	return g.pop(), true
}

func (g *uciGen) idle(w *uciWorld) {
	r := g.rng
	if g.stage == 2 {
		// the bestmove has been granted: the turn is over
		g.stage = 1
		g.turns++
	}
	if w.hasPend && g.stall == 0 && r.IntN(4) != 0 {
		g.queue = append(g.queue, UStep{Op: "grant", N: 1 + r.IntN(3), Fail: r.Float64() < g.cfg.PWriteErr})
		return
	}
	if g.stall > 0 {
		g.stall--
	} else if r.Float64() < g.cfg.PStall {
		g.stall = 1 + r.IntN(10)
	}
	switch g.stage {
	case 0:
		g.stage = 1
		if r.IntN(40) == 0 {
			// a GUI that changes its mind at once
			g.send("quit")
			g.ended = true
			return
		}
		if r.IntN(10) != 0 {
			g.send("uci")
		}
		if r.IntN(2) == 0 {
			g.send("isready")
		}
		if r.IntN(4) == 0 {
			g.send("debug " + pick(r, []string{"on", "off"}))
		}
		if g.cfg.Hash {
			g.send(fmt.Sprintf("setoption name Hash value %d", pick(r, []int{1, 2, 4, 16, 64, 128})))
		}
		if g.cfg.Ponder {
			g.send("setoption name Ponder value " + pick(r, []string{"true", "true", "True", "false"}))
			g.ponderOn = true
		}
		if g.cfg.Spsa {
			for _, sr := range spsaRanges() {
				if r.IntN(3) == 0 {
					g.send(fmt.Sprintf("setoption name %s value %d", sr.Name, sr.Min+r.IntN(sr.Max-sr.Min+1)))
				}
			}
		}
	case 1:
		if g.turns >= g.cfg.MaxTurns {
			switch {
			case g.cfg.NoEOL:
				// end of input right after an unterminated last line
				g.queue = append(g.queue, UStep{Op: "in", Data: pick(r, []string{"quit", "isready", "stop"})}, UStep{Op: "eof"})
			case r.IntN(2) == 0:
				g.send("quit")
				if r.IntN(5) == 0 {
					// a piped script in which quit is not the last line
					g.send(pick(r, []string{"isready", "stop", "uci", "quit"}))
				}
			default:
				g.queue = append(g.queue, UStep{Op: "eof"})
			}
			g.ended = true
			return
		}
		if r.Float64() < g.cfg.PIsready/4 {
			g.send("isready")
		}
		if r.IntN(12) == 0 {
			g.send(pick(r, []string{"fen", "eval", "perft 1", "perft 2", "spsa"}))
		}
		g.issueGo()
	}
}

// issueGo writes the next position and go lines (with the script of the stub
// search that will serve it).
func (g *uciGen) issueGo() {
	r := g.rng
	pos := g.positionLine()
	if g.newGameNext {
		g.send("ucinewgame")
		g.newGameNext = false
		if g.cfg.Hash && r.IntN(3) == 0 {
			// the table is resized right behind the clearing
			g.send(fmt.Sprintf("setoption name Hash value %d", pick(r, []int{1, 2, 16, 64})))
		}
	}
	g.send(pos)
	line, selfEnds, ponder := g.goLine()
	g.cur = genGo{ponder: ponder}
	if selfEnds {
		g.cur.limit = 15 + r.IntN(60)
	} else {
		g.cur.limit = 2 + r.IntN(40)
	}
	for _, f := range tinyTreeFENs {
		if g.game.Start.FEN() == f {
			// let the search run long enough to hit the ply cap by itself
			g.cur.bigQuanta = true
			g.cur.limit = 40 + r.IntN(60)
		}
	}
	if g.cfg.Stub {
		sg := StubGo{Move: "e2e4"}
		if l := g.game.Cur().Legal(); len(l) > 0 {
			sg.Move = pick(r, l).String()
		} else {
			sg.Move = "0000"
		}
		for i, n := 0, r.IntN(9); i < n; i++ {
			if i%2 == 0 {
				sg.Lines = append(sg.Lines, fmt.Sprintf("info depth %d score cp %d nodes %d time %d hashfull 0 pv %s", i+1, r.IntN(200)-100, (i+1)*1000, i, strings.Repeat(sg.Move+" ", 1+r.IntN(40))+sg.Move))
			} else {
				sg.Lines = append(sg.Lines, fmt.Sprintf("info depth %d nodes %d", i+1, i))
			}
		}
		if selfEnds && r.IntN(2) == 0 {
			sg.SelfEndUS = int64(1 + r.IntN(2_000_000))
		}
		g.sc.Stubs = append(g.sc.Stubs, sg)
	}
	if clk := parseGoClock(line); true {
		own := clk.btime
		if g.game.Cur().White {
			own = clk.wtime
		}
		if clk.movetime > 0 {
			own = clk.movetime
		}
		g.cur.timed = own > 0 && own <= 10_000_000
	}
	g.send(line)
	if r.IntN(10) == 0 {
		// the next command is already in the pipe when the go line is read
		g.send(pick(r, []string{"stop", "isready", "isready"}))
	}
	g.stage = 2
	g.goCount++
}

func (g *uciGen) during(w *uciWorld) {
	r := g.rng
	c := &g.cur
	c.steps++
	if g.cfg.SweepStop > 0 && !c.stopSent && !c.swept {
		// systematic placement: run the search to exactly poll SweepStop, then send the command
		if w.hazard && w.hasPend {
			g.queue = append(g.queue, UStep{Op: "grant"})
			return
		}
		if w.parked && w.cur != nil {
			if left := g.cfg.SweepStop - 1 - w.curPolls(); left > 0 {
				g.queue = append(g.queue, UStep{Op: "run", Polls: left})
				return
			}
			c.swept = true
			switch g.cfg.SweepCmd {
			case "quit":
				g.send("quit")
				g.ended = true
			case "eof":
				g.queue = append(g.queue, UStep{Op: "eof"})
				g.ended = true
			case "isready":
				g.send("isready")
			case "ponderhit":
				g.send("ponderhit")
				c.hitSent = true
			default:
				g.send("stop")
				c.stopSent = true
			}
			return
		}
	}
	if c.stopSent {
		if !c.drained && !c.waiting && g.cfg.SweepStop == 0 && g.turns+1 < g.cfg.MaxTurns && r.IntN(5) == 0 {
			// a GUI that does not wait for the bestmove: the next position and go
			// follow the stop at once and are queued behind the unwinding search
			if r.IntN(3) == 0 {
				g.send("isready")
			}
			g.turns++
			g.issueGo()
			return
		}
		if !c.drained {
			c.drained = true
			if r.IntN(3) == 0 {
				// the stop has been sent but the search does not get to run for a
				// while (loaded machine): simulated time passes first
				g.queue = append(g.queue, UStep{Op: "tick", DUS: pick(r, []int64{1000, 100_000, 3_000_000, 400_000_000})})
			}
			g.queue = append(g.queue, UStep{Op: "drain"})
			return
		}
		// drained and still owed: give it time (timers) once more
		g.queue = append(g.queue, UStep{Op: "drain"})
		c.steps += 10
		if c.steps > c.limit+200 {
			g.ended = true
		}
		return
	}
	if c.steps > c.limit {
		if g.cfg.Stub && c.timed && (!c.ponder || c.hitSent) && r.IntN(2) == 0 {
			// a GUI playing a timed game never sends stop: the engine has to end
			// the search by its own deadline (the blocking stub never does)
			c.waiting = true
		} else {
			g.send("stop")
		}
		c.stopSent = true
		return
	}
	if g.stall > 0 {
		g.stall--
	} else if r.Float64() < g.cfg.PStall {
		g.stall = 1 + r.IntN(12)
	}
	type opt struct {
		w float64
		f func()
	}
	var opts []opt
	if w.hazard && w.hasPend {
		// only writes can be granted until the interrupt goroutine is back in its select
		g.queue = append(g.queue, UStep{Op: "grant"})
		return
	}
	if w.hazard && w.parked {
		g.queue = append(g.queue, UStep{Op: "run", Polls: g.quantum()})
		return
	}
	if w.hasPend && g.stall == 0 {
		opts = append(opts, opt{4, func() {
			g.queue = append(g.queue, UStep{Op: "grant", N: 1 + r.IntN(2), Fail: r.Float64() < g.cfg.PWriteErr})
		}})
	}
	if w.parked {
		opts = append(opts, opt{6, func() {
			q := g.quantum()
			if c.bigQuanta {
				q = 3000 + r.IntN(3000)
			}
			cost := int64(q) * g.cfg.PollCostUS
			if r.IntN(40) == 0 {
				cost += int64(r.IntN(3_000_000)) // a stalled engine / clock jump
			}
			g.queue = append(g.queue, UStep{Op: "run", Polls: q, CostUS: cost})
		}})
	}
	tickW := 1.0
	if len(opts) == 0 {
		tickW = 5
	}
	opts = append(opts, opt{tickW, func() {
		g.queue = append(g.queue, UStep{Op: "tick", DUS: pick(r, []int64{1, 100, 1000, 10_000, 100_000, 1_000_000, 30_000_000})})
	}})
	opts = append(opts, opt{g.cfg.PIsready, func() {
		g.send("isready")
		for r.IntN(4) == 0 { // a burst
			g.send("isready")
		}
	}})
	opts = append(opts, opt{g.cfg.PStop, func() {
		if c.ponder && !c.hitSent && r.IntN(2) == 0 {
			g.send("ponderhit") // the hit and the stop arrive back to back
			c.hitSent = true
		}
		g.send("stop")
		if r.IntN(6) == 0 {
			g.send("stop") // an impatient GUI
		}
		c.stopSent = true
	}})
	opts = append(opts, opt{0.15, func() { g.send(pick(r, []string{"", " ", "\t ", "   "})) }})
	if c.ponder && !c.hitSent {
		opts = append(opts, opt{1.5, func() { g.send("ponderhit"); c.hitSent = true }})
	}
	opts = append(opts, opt{g.cfg.PQuitMid, func() { g.send("quit"); g.ended = true }})
	opts = append(opts, opt{g.cfg.PEOFMid, func() { g.queue = append(g.queue, UStep{Op: "eof"}); g.ended = true }})
	total := 0.0
	for _, o := range opts {
		total += o.w
	}
	x := r.Float64() * total
	for _, o := range opts {
		if x < o.w {
			o.f()
			return
		}
		x -= o.w
	}
	opts[0].f()
}

// curPolls is the number of polls the search in progress has executed.
func (w *uciWorld) curPolls() int {
	if w.curAgent != nil {
		return w.curAgent.polls
	}
	return 0
}
