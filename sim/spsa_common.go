package sim

type spsaRange struct {
	Name              string
	Default, Min, Max int
}
