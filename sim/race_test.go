package sim

import (
	"bufio"
	"encoding/json"
	"fmt"
	"io"
	"math/rand/v2"
	"os"
	"runtime"
	"strings"
	"sync"
	"sync/atomic"
	"testing"
	"time"

	"github.com/paulsonkoly/chess-3/board"
	"github.com/paulsonkoly/chess-3/chess"
	"github.com/paulsonkoly/chess-3/move"
	"github.com/paulsonkoly/chess-3/search"
	"github.com/paulsonkoly/chess-3/uci"

	"verif/sim/ref"
)

// RaceJob configures the auxiliary free-running leg of C13: the same kind of
// conforming sessions, but against the driver running on real goroutines,
// real pipes and the real clock, in a binary built with the race detector.
// The serialising scheduler of the deterministic leg creates happens-before
// edges between all parties and therefore hides data races; this leg exists
// to let the race detector see the driver unsynchronised. Only a DATA RACE
// report, a panic or a protocol-monitor failure counts; timeouts are
// inconclusive. Replays of this leg are best effort.
type RaceJob struct {
	Seed     uint64  `json:"seed"`
	BudgetS  float64 `json:"budget_s"`
	Sessions int     `json:"sessions"` // 0 = until the budget is used
	First    int     `json:"first"`
}

// RaceSummary is the output of the race leg.
type RaceSummary struct {
	Type         string           `json:"type"`
	Sessions     int              `json:"sessions"`
	Searches     int              `json:"searches"`
	Inconclusive int              `json:"inconclusive"`
	Violations   []Violation      `json:"violations,omitempty"`
	Stats        map[string]int64 `json:"stats"`
}

type raceLog struct {
	mu     sync.Mutex
	events []Event
	t0     time.Time
}

func (l *raceLog) add(kind, data string) {
	l.mu.Lock()
	l.events = append(l.events, Event{Seq: len(l.events), T: time.Since(l.t0).Microseconds(), Kind: kind, Data: data})
	l.mu.Unlock()
}

func (l *raceLog) bestmoves() int {
	l.mu.Lock()
	defer l.mu.Unlock()
	n := 0
	for _, e := range l.events {
		if e.Kind == "OUT" && strings.HasPrefix(e.Data, "bestmove") {
			n++
		}
	}
	return n
}

// instantSearch is a stub search that is over as soon as it is asked: the end
// of the search, the start of the driver's interrupt goroutine and whatever
// the GUI wrote behind the go all fall together.
type instantSearch struct{}

func (instantSearch) Clear()       {}
func (instantSearch) ResizeTT(int) {}
func (instantSearch) Go(*board.Board, ...search.Option) (chess.Score, move.Move, move.Move) {
	return 0, move.From(chess.E2) | move.To(chess.E4), 0
}

type lockedBuf struct {
	mu sync.Mutex
	sb strings.Builder
}

func (l *lockedBuf) Write(p []byte) (int, error) {
	l.mu.Lock()
	defer l.mu.Unlock()
	return l.sb.Write(p)
}

// instantBurst runs a handful of one-search sessions against the real driver
// with the instant stub: the whole script is readable at once, it holds
// exactly one go (a GUI does not send a second one before the bestmove) with
// ponderhit / isready / stop written behind it, then the input ends. Whatever
// goroutine of the driver picks those lines up, the go is answered once, every
// isready is answered, and Run returns. A panic of the driver ends the
// process and is reported by the parent.
func instantBurst(rng *rand.Rand, stats map[string]int64) (vs []Violation, conclusive bool) {
	conclusive = true
	for n := 8 + rng.IntN(16); n > 0; n-- {
		var sb strings.Builder
		ponderOn := rng.IntN(3) != 0
		if ponderOn {
			sb.WriteString("setoption name Ponder value true\n")
		}
		isready := 0
		for k := rng.IntN(3); k > 0; k-- {
			sb.WriteString("isready\n")
			isready++
		}
		sb.WriteString(pick(rng, []string{"go ponder\n", "go ponder\n", "go ponder wtime 1000 btime 1000\n", "go depth 1\n", "go infinite\n"}))
		for k := rng.IntN(4); k > 0; k-- {
			l := pick(rng, []string{"ponderhit", "ponderhit", "isready", "stop"})
			if l == "isready" {
				isready++
			}
			sb.WriteString(l + "\n")
		}
		out := &lockedBuf{}
		d := uci.NewDriver(uci.WithInput(strings.NewReader(sb.String())), uci.WithOutput(out), uci.WithError(io.Discard), uci.WithSearch(instantSearch{}))
		done := make(chan struct{})
		go func() { defer close(done); d.Run() }()
		select {
		case <-done:
		case <-time.After(20 * time.Second):
			return vs, false
		}
		stats["race_instant_sessions"]++
		out.mu.Lock()
		text := out.sb.String()
		out.mu.Unlock()
		bm, ro := 0, 0
		for _, l := range strings.Split(text, "\n") {
			switch {
			case strings.HasPrefix(l, "bestmove"):
				bm++
			case l == "readyok":
				ro++
			}
		}
		if bm != 1 {
			vs = append(vs, Violation{Property: "C13", Kind: "bestmove-count", Detail: fmt.Sprintf("[free-running leg, instant stub search] %d bestmove lines for one go; script %q, output %q", bm, sb.String(), text)})
		}
		if ro != isready {
			vs = append(vs, Violation{Property: "C13", Kind: "readyok-count", Detail: fmt.Sprintf("[free-running leg, instant stub search] %d readyok lines for %d isready; script %q, output %q", ro, isready, sb.String(), text)})
		}
	}
	return vs, true
}

// raceSession runs one free-running session; returns violations and whether
// it was conclusive.
func raceSession(rng *rand.Rand, stats map[string]int64) (vs []Violation, conclusive bool, searches int) {
	inR, inW := io.Pipe()
	outR, outW := io.Pipe()
	log := &raceLog{t0: time.Now()}
	eng := search.New(1 << 20)
	d := uci.NewDriver(uci.WithInput(inR), uci.WithOutput(outW), uci.WithError(io.Discard), uci.WithSearch(eng))
	done := make(chan struct{})
	go func() {
		defer close(done)
		d.Run()
		outW.Close()
	}()
	readerDone := make(chan struct{})
	go func() {
		defer close(readerDone)
		sc := bufio.NewScanner(outR)
		sc.Buffer(make([]byte, 1<<16), 1<<22)
		for sc.Scan() {
			log.add("OUT", sc.Text()+"\n")
		}
	}()
	send := func(line string) {
		if rng.IntN(15) == 0 {
			line = pick(rng, []string{line + "\t", strings.Replace(line, " ", "\t", 1), " " + line + " "})
		}
		log.add("IN", line)
		io.WriteString(inW, line+"\n")
	}
	nap := func(maxUS int) {
		if maxUS > 0 {
			time.Sleep(time.Duration(rng.IntN(maxUS)) * time.Microsecond)
		}
	}
	waitBest := func(n int) bool {
		deadline := time.Now().Add(20 * time.Second)
		for log.bestmoves() < n {
			if time.Now().After(deadline) {
				return false
			}
			time.Sleep(200 * time.Microsecond)
		}
		return true
	}
	conclusive = true
	send("uci")
	ponderOn := rng.IntN(2) == 0
	if ponderOn {
		send("setoption name Ponder value true")
	}
	send("isready")
	turns := 2 + rng.IntN(5)
	game := genRoot(rng, "").Game()
	quitMid := false
	if ponderOn && rng.IntN(2) == 0 {
		// a burst of ponder searches that are over at once (finished games, or
		// depth 1), each with its ponderhit already written behind the go: the
		// end of the search, the start of the interrupt goroutine and the
		// ponderhit all fall together (wave 12)
		for n := 3 + rng.IntN(8); n > 0 && conclusive; n-- {
			fen := pick(rng, []string{
				"R6k/6pp/8/8/8/8/8/K7 b - - 0 1",
				"rnb1kbnr/pppp1ppp/8/4p3/6Pq/5P2/PPPPP2P/RNBQKBNR w KQkq - 1 3",
				"7k/5Q2/6K1/8/8/8/8/8 b - - 0 1",
				game.Start.FEN(),
			})
			send("position fen " + fen)
			goLine := "go ponder depth 1"
			log.add("IN", goLine)
			log.add("IN", "ponderhit")
			io.WriteString(inW, goLine+"\nponderhit\n")
			searches++
			stats["race_searches"]++
			stats["fault_ponderhit_at_search_end"]++
			if !waitBest(searches) {
				conclusive = false
			}
		}
	}
	for t := 0; t < turns && !quitMid && conclusive; t++ {
		if rng.IntN(4) == 0 {
			game = genRoot(rng, "").Game()
			if rng.IntN(3) == 0 {
				send(fmt.Sprintf("setoption name Hash value %d", pick(rng, []int{16, 64, 128})))
			}
			send("ucinewgame")
			if rng.IntN(2) == 0 {
				send(fmt.Sprintf("setoption name Hash value %d", pick(rng, []int{1, 2, 16})))
			}
		}
		pos := "position fen " + game.Start.FEN()
		if len(game.Moves) > 0 {
			pos += " moves"
			for _, m := range game.Moves {
				pos += " " + m.String()
			}
		}
		send(pos)
		ponder, selfEnding := false, false
		var goLine string
		switch k := rng.IntN(7); {
		case k == 0:
			goLine = fmt.Sprintf("go depth %d", 2+rng.IntN(6))
		case k == 1:
			goLine = fmt.Sprintf("go nodes %d", pick(rng, []int{1, 100, 3000, 30000}))
		case k == 2:
			goLine = fmt.Sprintf("go movetime %d", 1+rng.IntN(40))
		case k == 3:
			goLine = fmt.Sprintf("go wtime %d btime %d winc %d binc %d", 1+rng.IntN(3000), 1+rng.IntN(3000), rng.IntN(50), rng.IntN(50))
		case k == 4:
			goLine = "go infinite"
		case k == 5:
			ponder = ponderOn
			goLine = fmt.Sprintf("go ponder wtime %d btime %d", 20+rng.IntN(2000), 20+rng.IntN(200000))
		default:
			// a ponder search that ends by itself (this engine answers as soon as
			// the depth is reached): the ponderhit below then arrives just before,
			// at, or just after the end of the search (wave 12)
			ponder = ponderOn
			selfEnding = true
			goLine = fmt.Sprintf("go ponder depth %d", 1+rng.IntN(4))
			if rng.IntN(2) == 0 {
				// a finished game: the search returns before anything else can happen
				send("position fen " + pick(rng, []string{
					"R6k/6pp/8/8/8/8/8/K7 b - - 0 1",
					"rnb1kbnr/pppp1ppp/8/4p3/6Pq/5P2/PPPPP2P/RNBQKBNR w KQkq - 1 3",
					"7k/5Q2/6K1/8/8/8/8/8 b - - 0 1",
				}))
			}
		}
		hit := false
		if ponder && selfEnding && rng.IntN(2) == 0 {
			// go and ponderhit leave the GUI in one write: the ponderhit is already
			// waiting when the driver starts the search
			log.add("IN", goLine)
			log.add("IN", "ponderhit")
			io.WriteString(inW, goLine+"\nponderhit\n")
			hit = true
			stats["fault_ponderhit_at_search_end"]++
		} else {
			send(goLine)
		}
		searches++
		stats["race_searches"]++
		if ponder && selfEnding && !hit && rng.IntN(2) == 0 {
			nap(pick(rng, []int{0, 0, 0, 20, 200}))
			send("ponderhit")
			hit = true
			stats["fault_ponderhit_at_search_end"]++
		}
		for k, n := 0, rng.IntN(6); k < n; k++ {
			nap(pick(rng, []int{0, 50, 500, 5000}))
			switch x := rng.IntN(10); {
			case x < 4:
				send("isready")
				stats["fault_isready_in_search"]++
			case x < 6 && ponder && !hit:
				send("ponderhit")
				hit = true
				stats["fault_ponderhit_in_search"]++
			case x == 9 && rng.IntN(4) == 0:
				send("quit")
				quitMid = true
				stats["fault_quit_in_search"]++
			}
			if quitMid {
				break
			}
		}
		if !quitMid {
			nap(pick(rng, []int{0, 100, 3000, 30000}))
			send("stop")
			stats["fault_stop_sent"]++
			if !waitBest(searches) {
				conclusive = false
				break
			}
			// continue the game with the engine's move when it is playable
			log.mu.Lock()
			var last string
			for _, e := range log.events {
				if e.Kind == "OUT" && strings.HasPrefix(e.Data, "bestmove") {
					last = e.Data
				}
			}
			log.mu.Unlock()
			if f := strings.Fields(last); len(f) >= 2 {
				if m, err := ref.ParseMove(f[1]); err == nil && !m.Null() && game.Cur().IsLegal(m) {
					game.Push(m)
				}
			}
		}
	}
	if !quitMid {
		if rng.IntN(2) == 0 {
			send("quit")
		}
	}
	log.add("EOF", "")
	inW.Close()
	select {
	case <-done:
		log.add("DONE", "")
	case <-time.After(20 * time.Second):
		conclusive = false
	}
	if conclusive {
		<-readerDone
	}
	if !conclusive {
		return nil, false, searches
	}
	// protocol monitor over the recorded history (the search itself is not
	// instrumented in this leg: no GOCALL events, so only the stream clauses)
	log.mu.Lock()
	evs := append([]Event(nil), log.events...)
	log.mu.Unlock()
	for i := range evs {
		evs[i].Seq = i
	}
	vs = monitorStream(evs)
	return vs, true, searches
}

// monitorStream checks the stream clauses of C13 (exactly one bestmove per go
// after all its info lines, readyok accounting, keywords) on a history that
// has only IN/OUT/EOF/DONE events.
func monitorStream(evs []Event) (vs []Violation) {
	add := func(kind, detail string, seq int) {
		vs = append(vs, Violation{Property: "C13", Kind: kind, Detail: "[free-running leg] " + detail, Step: seq})
	}
	owed := false
	goes, bests, isready, readyok, allow := 0, 0, 0, 0, 0
	for _, e := range evs {
		switch e.Kind {
		case "IN":
			switch firstToken(e.Data) {
			case "go":
				owed = true
				goes++
			case "isready":
				isready++
			case "fen", "eval":
				allow++
			}
		case "OUT":
			l := strings.TrimSuffix(e.Data, "\n")
			switch kw := firstToken(l); kw {
			case "info":
				if il := parseInfo(l); !(il.hasDepth || il.hasNodes || il.hasPV) {
					break
				}
				if !owed {
					add("info-outside-search", fmt.Sprintf("info line outside any search window: %q", l), e.Seq)
				}
			case "bestmove":
				if !owed {
					add("unsolicited-bestmove", fmt.Sprintf("bestmove without an outstanding go: %q", l), e.Seq)
				}
				owed = false
				bests++
				if f := strings.Fields(l); len(f) != 2 && !(len(f) == 4 && f[2] == "ponder") {
					add("torn-line", fmt.Sprintf("malformed bestmove line %q", l), e.Seq)
				}
			case "readyok":
				readyok++
				if readyok > isready {
					add("readyok-unsolicited", fmt.Sprintf("readyok #%d with only %d isready sent", readyok, isready), e.Seq)
				}
			default:
				if !engineKeywords[kw] {
					if allow > 0 {
						allow--
					} else {
						add("torn-line", fmt.Sprintf("line does not open with an engine-to-GUI keyword: %q", l), e.Seq)
					}
				}
			}
		}
	}
	if goes != bests {
		add("bestmove-count", fmt.Sprintf("%d go commands, %d bestmove lines", goes, bests), len(evs))
	}
	if isready != readyok {
		add("readyok-count", fmt.Sprintf("%d isready sent, %d readyok received", isready, readyok), len(evs))
	}
	return vs
}

// TestRaceLeg is the entry point of the free-running leg.
func TestRaceLeg(t *testing.T) {
	js := os.Getenv("VERIF_RACE_JOB")
	if js == "" {
		t.Skip("not a race-leg invocation")
	}
	var job RaceJob
	if err := json.Unmarshal([]byte(js), &job); err != nil {
		t.Fatal(err)
	}
	start := time.Now()
	sum := RaceSummary{Type: "race-summary", Stats: map[string]int64{}}
	for i := job.First; ; i++ {
		if job.Sessions > 0 && i >= job.First+job.Sessions {
			break
		}
		if job.BudgetS > 0 && time.Since(start).Seconds() > job.BudgetS {
			break
		}
		seed := mixSeed(job.Seed, "C13-race", uint64(i))
		fmt.Fprintf(os.Stderr, "RACE-SESSION seed=%d index=%d\n", job.Seed, i)
		vs, ok, n := raceSession(newRng(seed), sum.Stats)
		sum.Sessions++
		sum.Searches += n
		if !ok {
			sum.Inconclusive++
		}
		if i%2 == 0 {
			vb, okb := instantBurst(newRng(mixSeed(job.Seed, "C13-race-instant", uint64(i))), sum.Stats)
			vs = append(vs, vb...)
			if !okb {
				sum.Inconclusive++
			}
		}
		for _, v := range vs {
			v.Detail += fmt.Sprintf(" (race-leg seed=%d session=%d)", job.Seed, i)
			sum.Violations = append(sum.Violations, v)
		}
	}
	b, _ := json.Marshal(sum)
	if p := os.Getenv("VERIF_OUT"); p != "" {
		os.WriteFile(p, append(b, '\n'), 0o644)
	} else {
		fmt.Println(string(b))
	}
}

// ---- C08 auxiliary leg: engines running truly in parallel -------------------

// parRecorder records the lines of one engine (no agent, no hook).
type parRecorder struct{ lines []string }

func (r *parRecorder) Write(p []byte) (int, error) {
	r.lines = append(r.lines, strings.TrimRight(string(p), "\n"))
	return len(p), nil
}

type parResult struct {
	score        int
	move, ponder string
	nodes        int
	lines        []string
}

// parGame plays one scripted game on one engine and returns what every search
// reported. noCounters: call Go the way the UCI driver does.
func parGame(root Root, moves []string, reqs []Limits, tt int, noCounters, withStop bool, startGate <-chan struct{}) (out []parResult, err error) {
	defer func() {
		if r := recover(); r != nil {
			err = fmt.Errorf("panic: %v", r)
		}
	}()
	g := root.Game()
	b, e := engineBoard(g)
	if e != nil {
		return nil, e
	}
	eng := search.New(tt)
	if startGate != nil {
		<-startGate
	}
	if tt >= 32<<20 {
		// a big table is filled a little and cleared right before the game, the
		// way ucinewgame does
		eng.Go(b, search.WithOutput(nil), search.WithNodes(3000))
		eng.Clear()
	}
	for i, lim := range reqs {
		rec := &parRecorder{}
		cnt := &search.Counters{}
		opts := []search.Option{search.WithOutput(rec)}
		if !noCounters {
			opts = append(opts, search.WithCounters(cnt))
		}
		if lim.Depth > 0 {
			opts = append(opts, search.WithDepth(chessDepth(lim.Depth)))
		}
		if lim.Nodes >= 0 {
			opts = append(opts, search.WithNodes(lim.Nodes))
		}
		if lim.SoftNodes > 0 {
			opts = append(opts, search.WithSoftNodes(lim.SoftNodes))
		}
		var stop chan struct{}
		if withStop {
			// the way the UCI driver calls it: a stop channel per search, closed
			// right after the search has returned, the next search following at once
			stop = make(chan struct{})
			opts = append(opts, search.WithStop(stop))
		}
		sc, mv, pm := eng.Go(b, opts...)
		if stop != nil {
			close(stop)
		}
		out = append(out, parResult{int(sc), mv.String(), pm.String(), cnt.Nodes, reportLines(rec.lines)})
		if i < len(moves) {
			m, err := ref.ParseMove(moves[i])
			if err != nil || !g.Cur().IsLegal(m) {
				break
			}
			g.Push(m)
			b.MakeMove(toEngineMove(m))
		}
	}
	return out, nil
}

// TestParallelLeg: K engines play the same scripted game at the same time on
// real threads; each must report exactly what a single engine reports when it
// plays the game alone. The oracle does not depend on the schedule, so the
// leg cannot raise a false alarm; under -race it also lets the detector see
// state shared between instances.
func TestParallelLeg(t *testing.T) {
	js := os.Getenv("VERIF_PAR_JOB")
	if js == "" {
		t.Skip("not a parallel-leg invocation")
	}
	var job RaceJob
	if err := json.Unmarshal([]byte(js), &job); err != nil {
		t.Fatal(err)
	}
	start := time.Now()
	sum := RaceSummary{Type: "par-summary", Stats: map[string]int64{}}
	// a game takes seconds at most: if none finishes for 90 s some search does
	// not return. Say where every goroutine is (runtime.Stack stops the world,
	// so running goroutines have their frames too) and end the process.
	var progress atomic.Int64
	progress.Store(time.Now().UnixNano())
	go func() {
		for {
			time.Sleep(time.Second)
			if time.Since(time.Unix(0, progress.Load())) > 90*time.Second {
				buf := make([]byte, 1<<22)
				n := runtime.Stack(buf, true)
				fmt.Fprintf(os.Stderr, "\nPARALLEL-LEG-STUCK no game finished for 90 s\n\n%s\n", buf[:n])
				os.Exit(3)
			}
		}
	}()
	for i := job.First; ; i++ {
		progress.Store(time.Now().UnixNano())
		if job.Sessions > 0 && i >= job.First+job.Sessions {
			break
		}
		if job.BudgetS > 0 && time.Since(start).Seconds() > job.BudgetS {
			break
		}
		rng := newRng(mixSeed(job.Seed, "C08-par", uint64(i)))
		fmt.Fprintf(os.Stderr, "RACE-SESSION seed=%d index=%d\n", job.Seed, i)
		root := genRoot(rng, pick(rng, []string{"bench", "start-play", "bench-play", "endgame", "shuffle2"}))
		g := root.Game()
		n := 3 + rng.IntN(6)
		if rng.IntN(12) == 0 {
			n = 258 + rng.IntN(10) // across a wrap of the table generation
		}
		var moves []string
		var reqs []Limits
		for k := 0; k < n; k++ {
			lim := Limits{Nodes: -1}
			switch rng.IntN(3) {
			case 0:
				lim.Depth = 1 + rng.IntN(5)
			case 1:
				lim.Nodes = pick(rng, []int{1, 2, 50, 500, 3000})
			case 2:
				lim.SoftNodes = pick(rng, []int{100, 1500})
			}
			if n > 100 {
				lim = Limits{Nodes: -1, Depth: 1 + rng.IntN(2)}
			}
			reqs = append(reqs, lim)
			l := g.Cur().Legal()
			if len(l) == 0 {
				break
			}
			m := pick(rng, l)
			moves = append(moves, m.String())
			g.Push(m)
		}
		tt := pick(rng, []int{32768, 1 << 20})
		if rng.IntN(6) == 0 {
			tt = pick(rng, []int{32 << 20, 64 << 20})
		}
		noCounters := rng.IntN(2) == 0
		withStop := rng.IntN(2) == 0
		if withStop {
			sum.Stats["fault_stop_channel_closed_after_return"] += int64(len(reqs))
		}
		want, err := parGame(root, moves, reqs, tt, noCounters, withStop, nil)
		if err != nil {
			sum.Violations = append(sum.Violations, Violation{Property: "C08", Kind: "panic", Detail: "[parallel leg] reference game: " + err.Error()})
			continue
		}
		k := 2 + rng.IntN(3)
		gate := make(chan struct{})
		got := make([][]parResult, k)
		errs := make([]error, k)
		var wg sync.WaitGroup
		for e := 0; e < k; e++ {
			wg.Add(1)
			go func(e int) {
				defer wg.Done()
				got[e], errs[e] = parGame(root, moves, reqs, tt, noCounters, withStop, gate)
			}(e)
		}
		close(gate)
		wg.Wait()
		sum.Sessions++
		sum.Searches += len(want) * (k + 1)
		sum.Stats["parallel_engines"] += int64(k)
		for e := 0; e < k; e++ {
			if errs[e] != nil {
				sum.Violations = append(sum.Violations, Violation{Property: "C08", Kind: "panic", Detail: fmt.Sprintf("[parallel leg] engine %d: %v (seed=%d session=%d)", e, errs[e], job.Seed, i)})
				continue
			}
			for si := range want {
				if si >= len(got[e]) {
					break
				}
				w, x := want[si], got[e][si]
				diff := ""
				switch {
				case w.score != x.score || w.move != x.move || w.ponder != x.ponder:
					diff = fmt.Sprintf("result (score %d, move %s, ponder %s) vs (score %d, move %s, ponder %s)", w.score, w.move, w.ponder, x.score, x.move, x.ponder)
				case !noCounters && w.nodes != x.nodes:
					diff = fmt.Sprintf("nodes %d vs %d", w.nodes, x.nodes)
				case len(w.lines) != len(x.lines):
					diff = fmt.Sprintf("%d vs %d reported lines", len(w.lines), len(x.lines))
				default:
					for li := range w.lines {
						if lineKey(w.lines[li]) != lineKey(x.lines[li]) {
							diff = fmt.Sprintf("line %d: %q vs %q", li, w.lines[li], x.lines[li])
							break
						}
					}
				}
				if diff != "" {
					sum.Violations = append(sum.Violations, Violation{Property: "C08", Kind: "parallel-mismatch", Step: si,
						Detail: fmt.Sprintf("[parallel leg] engine %d of %d running at the same time differs from the same game played alone at search %d: %s (root %s, tt %d, seed=%d session=%d)", e, k, si, diff, root.FEN, tt, job.Seed, i)})
					break
				}
			}
		}
	}
	b, _ := json.Marshal(sum)
	if p := os.Getenv("VERIF_OUT"); p != "" {
		os.WriteFile(p, append(b, '\n'), 0o644)
	} else {
		fmt.Println(string(b))
	}
}

func chessDepth(d int) chess.Depth { return chess.Depth(d) }
