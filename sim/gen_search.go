package sim

import (
	"math/rand/v2"
)

// ttSizes the generators draw from: 1 bucket, 2 buckets, 32 buckets, exactly
// 1000 and 1024 buckets (the HashFull boundary), and ordinary sizes.
var ttSizesSmall = []int{32, 64, 1024, 4096, 31968}
var ttSizesOut = []int{32000, 32768, 65536, 1 << 20, 1 << 20, 4 << 20}

func drawSched(rng *rand.Rand) Sched {
	switch rng.IntN(4) {
	case 0:
		return Sched{}
	case 1:
		return Sched{Quanta: []Quantum{{Polls: 1 + rng.IntN(5), CostUS: int64(rng.IntN(50))}}}
	case 2:
		return Sched{Quanta: []Quantum{{Polls: 1 + rng.IntN(200), CostUS: int64(rng.IntN(2000))}, {Polls: 1 + rng.IntN(2000), CostUS: int64(rng.IntN(100))}}}
	}
	// occasional long stalls and clock jumps
	return Sched{Quanta: []Quantum{{Polls: 1 + rng.IntN(1000), CostUS: int64(rng.IntN(50_000))}, {Polls: 1 + rng.IntN(50), CostUS: int64(rng.IntN(3_000_000))}, {Polls: 500, CostUS: 0}}}
}

func drawSpsa(rng *rand.Rand) []SpsaSet {
	var out []SpsaSet
	if !SpsaBuild {
		return nil
	}
	for _, r := range spsaRanges() {
		switch rng.IntN(4) {
		case 0:
			out = append(out, SpsaSet{r.Name, r.Min})
		case 1:
			out = append(out, SpsaSet{r.Name, r.Max})
		case 2:
			out = append(out, SpsaSet{r.Name, r.Min + rng.IntN(r.Max-r.Min+1)})
		}
	}
	return out
}

// drawLimits draws a combination of limits; small keeps the search small
// enough for a complete abort sweep.
func drawLimits(rng *rand.Rand, small bool) Limits {
	l := Limits{Nodes: -1}
	switch rng.IntN(6) {
	case 0:
		l.Depth = 1 + rng.IntN(4)
	case 1:
		l.SoftNodes = pick(rng, []int{1, 10, 100, 300, 800, 2000})
	case 2:
		l.SoftTime = int64(pick(rng, []int{1, 2, 5, 20}))
		l.Depth = 1 + rng.IntN(6)
	case 3:
		l.Depth = 1 + rng.IntN(5)
		l.SoftNodes = pick(rng, []int{50, 500, 3000})
	case 4:
		l.Nodes = pick(rng, []int{0, 1, 2, 3, 10, 50, 200, 1000, 4000})
		if rng.IntN(2) == 0 {
			l.Depth = 1 + rng.IntN(6)
		}
	case 5:
		l.Depth = 1 + rng.IntN(3)
		l.Nodes = pick(rng, []int{5, 100, 1500})
		l.SoftNodes = pick(rng, []int{0, 60, 700})
	}
	if !small && rng.IntN(3) == 0 {
		l.Depth = 0
		l.SoftNodes = pick(rng, []int{3000, 8000, 20000})
	}
	if l.Depth == 0 && l.Nodes < 0 && l.SoftNodes == 0 && l.SoftTime == 0 {
		l.Depth = 3
	}
	return l
}

// genSearchScenario draws one search-world scenario for the given profile
// ("c06", "c07", "c08") and tier.
func genSearchScenario(rng *rand.Rand, profile string, thorough bool) *SearchScenario {
	sc := &SearchScenario{World: "search"}
	root := genRoot(rng, "")
	sc.StartFEN, sc.Prefix = root.FEN, root.Moves
	sc.Style = pick(rng, []string{"carry", "fresh"})
	sc.Spsa = drawSpsa(rng)
	g := root.Game()

	switch profile {
	case "deep":
		// one very deep search on a root with a tiny tree: variations of dozens
		// of moves, iterations up to the ply cap
		sc.StartFEN = pick(rng, []string{
			"8/8/8/1p6/1P6/8/8/K6k w - - 0 1",
			"8/p7/P7/8/8/4k3/8/4K3 w - - 0 1",
			"7k/8/8/p7/P7/8/8/K7 w - - 0 1",
			"8/8/4k3/8/8/4K3/4P3/8 w - - 0 1",
			"k7/8/8/p1p1p1p1/P1P1P1P1/8/8/K7 w - - 0 1",
			"8/8/8/8/8/k7/8/K7 w - - 0 1",
			"8/8/8/3k4/8/3K4/3R4/8 w - - 0 1",
		})
		sc.Prefix = nil
		sc.TTBytes = pick(rng, []int{1 << 20, 4 << 20, 16 << 20})
		budget := 3_000_000
		if thorough {
			budget = 45_000_000
		}
		sc.Steps = []SearchStep{{Req: Request{Limits: Limits{Nodes: budget, Depth: 50 + rng.IntN(14)}, StopAtPoll: -1, Output: true}, Play: ""}}
		if rng.IntN(3) == 0 {
			// a ponder search that is never hit runs into the ply cap on these roots
			sc.StartFEN = pick(rng, []string{"k7/8/8/p1p1p1p1/P1P1P1P1/8/8/K7 w - - 0 1", "8/8/8/8/8/k7/8/K7 w - - 0 1", "7k/8/8/p7/P7/8/8/K7 w - - 0 1"})
			sc.Steps[0].Req = Request{Limits: Limits{Nodes: -1, Depth: 1 + rng.IntN(8)}, StopAtPoll: 400_000 + rng.IntN(150_000), Ponder: true, Output: true}
		}
		return sc
	case "tiny":
		// a long random walk searched shallowly at every ply on a table of one to
		// eight buckets: signature collisions hand the search moves that belong
		// to other positions thousands of times per run
		sc.TTBytes = pick(rng, []int{32, 32, 64, 128, 256})
		sc.Style = "carry"
		walks := 12 + rng.IntN(20)
		for w := 0; w < walks; w++ {
			var nr *Root
			if w > 0 {
				r2 := genRoot(rng, "")
				if rng.IntN(3) == 0 {
					// kings and rooks at home, open lines: castling moves and checks are
					// frequent, so castling is a frequent stored move
					r2 = Root{FEN: pick(rng, []string{
						"r3k2r/8/8/8/8/8/8/R3K2R w KQkq - 0 1",
						"r3k2r/8/8/8/8/8/8/R3K2R b KQkq - 0 1",
						"r3k2r/pppq1ppp/8/8/8/8/PPPQ1PPP/R3K2R w KQkq - 0 1",
						"r3k2r/p1p2p1p/8/1b6/1B6/8/P1P2P1P/R3K2R b KQkq - 0 1",
						"r3k2r/8/8/4q3/4Q3/8/8/R3K2R w KQkq - 0 1",
						"r3k3/8/8/8/8/8/8/R3K2R w KQq - 0 1",
					}), Tag: "castling-rich"}
				}
				nr = &r2
				g = r2.Game()
			}
			n := 40 + rng.IntN(120)
			for i := 0; i < n; i++ {
				l := g.Cur().Legal()
				if len(l) == 0 || len(g.FinalReasons()) > 0 {
					break
				}
				m := pick(rng, l)
				st := SearchStep{Req: Request{Limits: Limits{Nodes: -1, Depth: pick(rng, []int{1, 1, 1, 2, 2, 3})}, StopAtPoll: -1}, Play: m.String(), NewRoot: nr}
				nr = nil
				if rng.IntN(16) == 0 {
					st.Req.Nodes = rng.IntN(60)
				}
				g.Push(m)
				sc.Steps = append(sc.Steps, st)
			}
			if nr != nil {
				// the root was final from the start: search it once
				sc.Steps = append(sc.Steps, SearchStep{Req: Request{Limits: Limits{Nodes: -1, Depth: 2}, StopAtPoll: -1}, Play: "", NewRoot: nr})
			}
		}
		return sc
	case "c07game":
		// long self-played games on one engine with ordinary searches: the
		// variations reported late in a game depend on table and history state
		// left by all earlier searches, and on repetitions in the game history
		sc.TTBytes = pick(rng, []int{32768, 1 << 20, 1 << 20, 4 << 20})
		if rng.IntN(2) == 0 {
			// start from a repetition-prone history
			r2 := genRoot(rng, pick(rng, []string{"shuffle2", "endgame", "bench-play", "fifty", "captures"}))
			sc.StartFEN, sc.Prefix = r2.FEN, r2.Moves
		}
		n := 8 + rng.IntN(24)
		for i := 0; i < n; i++ {
			st := SearchStep{Req: Request{Limits: Limits{Nodes: -1}, StopAtPoll: -1, Output: true}, Play: "best"}
			switch rng.IntN(4) {
			case 0:
				st.Req.Depth = 5 + rng.IntN(5)
				st.Req.SoftNodes = 30000
			case 1:
				st.Req.SoftNodes = pick(rng, []int{2000, 6000, 15000})
			case 2:
				st.Req.Depth = 7 + rng.IntN(3)
				st.Req.Nodes = pick(rng, []int{3000, 12000, 40000})
			case 3:
				st.Req.SoftTime = int64(pick(rng, []int{5, 20}))
				st.Req.Depth = 10
				st.Sched = Sched{Quanta: []Quantum{{Polls: 200, CostUS: 100}}}
			}
			if rng.IntN(10) == 0 {
				st.Req.StopAtPoll = 500 + rng.IntN(20000)
			}
			sc.Steps = append(sc.Steps, st)
		}
		return sc
	case "c08":
		if rng.IntN(200) == 0 {
			// a search with very many live moves (several queens, deep), then a
			// Clear, then the same search again next to a brand-new engine: scratch
			// structures that grew during the first search must not matter
			sc.StartFEN, sc.Prefix = pick(rng, []string{
				"1q1q1rk1/q4ppp/8/8/8/8/Q4PPP/1Q1Q1RK1 w - - 0 1",
				"q2q2k1/1q3ppp/8/8/8/8/1Q3PPP/Q2Q2K1 b - - 0 1",
				"3qk3/1q1q4/8/8/8/8/1Q1Q4/3QK3 w - - 0 1",
			}), nil
			sc.TTBytes, sc.Twins, sc.Style = pick(rng, []int{1 << 20, 4 << 20, 16 << 20, 16 << 20}), 1, "fresh"
			req := Request{Limits: Limits{Nodes: -1, Depth: 15 + rng.IntN(2)}, StopAtPoll: -1, Output: true, PollCap: 8_000_000}
			sc.Steps = []SearchStep{{Req: req, Play: ""}, {Req: req, Play: "", Clear: true}}
			return sc
		}
		if rng.IntN(10) == 0 {
			// the hard budget around pondering: while the engine ponders the budget
			// is suspended, from the ponderhit on it binds (no twins: a ponder
			// search is ended from outside)
			sc.TTBytes = 1 << 20
			for i, n := 0, 2+rng.IntN(4); i < n; i++ {
				st := SearchStep{Req: Request{Limits: Limits{Nodes: pick(rng, []int{1, 50, 300, 2000})}, Ponder: true, Output: true,
					PonderHitAtPoll: pick(rng, []int{1, 10, 400, 3000, 9000}), StopAtPoll: 12000 + rng.IntN(20000)}, Play: "best"}
				if rng.IntN(3) == 0 {
					st.Req.Depth = 2 + rng.IntN(5)
				}
				st.Sched = drawSched(rng)
				sc.Steps = append(sc.Steps, st)
			}
			return sc
		}
		sc.TTBytes = pick(rng, []int{32768, 65536, 1 << 20, 1 << 20, 4 << 20, 1003 * 32, 2047 * 32, 4001 * 32, 32771 * 32})
		sc.Twins = 1 + rng.IntN(2)
		sc.Noise = rng.IntN(2) == 0
		n := 3 + rng.IntN(8)
		if rng.IntN(40) == 0 || (thorough && rng.IntN(12) == 0) {
			n = 258 + rng.IntN(40) // generation counter wrap
		}
		selfplay := rng.IntN(3) != 0
		noCounters := rng.IntN(3) == 0 // the whole game is played the way the UCI driver calls the search
		outputFlip := rng.IntN(5) == 0 // the twins play the whole game without an output writer
		for i := 0; i < n; i++ {
			st := SearchStep{Req: Request{Limits: Limits{Nodes: -1}, StopAtPoll: -1, Output: true}}
			switch rng.IntN(5) {
			case 0:
				st.Req.Depth = 1 + rng.IntN(6)
			case 1:
				st.Req.SoftNodes = pick(rng, []int{1, 50, 400, 1500, 5000})
				st.SoftToHard = rng.IntN(2) == 0
			case 2:
				st.Req.SoftTime = int64(pick(rng, []int{1, 3, 10}))
				st.SoftToHard = true
				st.Sched = Sched{Quanta: []Quantum{{Polls: 1 + rng.IntN(300), CostUS: int64(1 + rng.IntN(400))}}}
			case 3:
				st.Req.Nodes = pick(rng, []int{0, 1, 7, 100, 1000, 4000})
			case 4:
				st.Req.Depth = 2 + rng.IntN(4)
				st.Req.Nodes = pick(rng, []int{30, 300, 3000})
				st.Req.SoftNodes = pick(rng, []int{0, 200})
				st.SoftToHard = rng.IntN(2) == 0
			}
			if n > 100 {
				st.Req.Limits = Limits{Nodes: -1, Depth: 1 + rng.IntN(2)}
				st.SoftToHard = false
			}
			if len(st.Sched.Quanta) == 0 {
				st.Sched = drawSched(rng)
			}
			for t := 0; t < sc.Twins; t++ {
				st.TwinSched = append(st.TwinSched, Sched{Quanta: []Quantum{{Polls: 1 + rng.IntN(400), CostUS: int64(rng.IntN(5000))}}})
			}
			st.Req.Debug = rng.IntN(6) == 0
			st.TwinDebugFlip = rng.IntN(6) == 0
			st.TwinOutputFlip = outputFlip
			if rng.IntN(3) == 0 {
				st.Req.OptOrder = 1 + rng.IntN(1000)
			}
			if rng.IntN(3) == 0 {
				st.TwinOptOrder = 1 + rng.IntN(1000)
			}
			if n < 100 && rng.IntN(10) == 0 {
				// a search deep enough for depth-dependent heuristics, on a table small
				// enough for signature collisions, compared with the Debug option flipped
				st.Req.Limits = Limits{Nodes: -1, SoftNodes: pick(rng, []int{20000, 40000})}
				st.SoftToHard = false
				st.TwinDebugFlip = true
			}
			st.Req.NoCounters = noCounters
			if rng.IntN(12) == 0 {
				st.Clear = true
			}
			if rng.IntN(15) == 0 {
				st.Resize = pick(rng, []int{32768, 65536, 1 << 20, 2 << 20, 4 << 20, 1001 * 32, 5003 * 32})
				st.Clear = rng.IntN(2) == 0
				st.ClearFirst = rng.IntN(2) == 0
			}
			if i > 0 && rng.IntN(25) == 0 {
				// what `setoption Hash` / `ucinewgame` sequences of a GUI amount to:
				// shrink, clear while small, grow back
				sc.Steps[len(sc.Steps)-1].Resize = 32768
				st.Clear, st.ClearFirst, st.Resize = true, true, pick(rng, []int{1 << 20, 4 << 20})
			}
			st.Research = rng.IntN(8) == 0
			if selfplay {
				st.Play = "best"
			} else {
				l := g.Cur().Legal()
				if len(l) == 0 {
					sc.Steps = append(sc.Steps, st)
					break
				}
				m := pick(rng, l)
				st.Play = m.String()
				g.Push(m)
			}
			sc.Steps = append(sc.Steps, st)
		}
		return sc
	}

	// c06 / c07: a game that walks into a repetition (or across the fifty-move
	// boundary) with the engine searching every position on the way, so that
	// its tables already know the placement when the root becomes final
	if rng.IntN(8) == 0 {
		sc.TTBytes = pick(rng, ttSizesOut)
		base := genRoot(rng, pick(rng, []string{"bench", "start-play", "endgame", "fifty", "curated-play"}))
		sc.StartFEN, sc.Prefix = base.FEN, base.Moves
		g2 := base.Game()
		before := len(g2.Moves)
		if shuffle(rng, g2, 8+rng.IntN(3)) > 0 {
			for _, m := range g2.Moves[before:] {
				st := SearchStep{Req: Request{Limits: Limits{Nodes: -1, Depth: 1 + rng.IntN(5)}, StopAtPoll: -1, Output: true}, Play: m.String()}
				if rng.IntN(3) == 0 {
					st.Req.Limits = Limits{Nodes: -1, SoftNodes: pick(rng, []int{200, 2000})}
				}
				sc.Steps = append(sc.Steps, st)
			}
			// the last root is searched twice: to completion and under a sweep
			last := SearchStep{Req: Request{Limits: Limits{Nodes: -1, Depth: 1 + rng.IntN(6)}, StopAtPoll: -1, Output: true}, Play: "", Research: true}
			sc.Steps = append(sc.Steps, last)
			if rng.IntN(2) == 0 {
				sw := last
				sw.Sweep = &Sweep{Kind: pick(rng, []string{"nodes", "stop"}), All: true, Max: 200}
				sc.Steps = append(sc.Steps, sw)
			}
			return sc
		}
		sc.StartFEN, sc.Prefix = root.FEN, root.Moves
	}

	// c06 / c07: abort-point exploration
	if profile == "c07" || rng.IntN(3) != 0 {
		sc.TTBytes = pick(rng, ttSizesOut)
	} else {
		sc.TTBytes = pick(rng, ttSizesSmall)
	}
	n := 1 + rng.IntN(4)
	maxSweep := 250
	if thorough {
		maxSweep = 1500
	}
	for i := 0; i < n; i++ {
		small := rng.IntN(3) != 0
		st := SearchStep{Req: Request{Limits: drawLimits(rng, small), StopAtPoll: -1, Output: true}}
		st.Sched = drawSched(rng)
		if profile == "c06" && rng.IntN(5) == 0 {
			st.Req.Output = false
		}
		switch rng.IntN(8) {
		case 0, 1:
			st.Sweep = &Sweep{Kind: "nodes", All: true, Max: maxSweep}
		case 2, 3:
			st.Sweep = &Sweep{Kind: "stop", All: true, Max: maxSweep}
		case 4:
			st.Req.StopAtPoll = rng.IntN(3000)
		case 5:
			st.Req.StopAtPoll = rng.IntN(8)
		case 6:
			st.Req.Ponder = true
			st.Req.PonderHitAtPoll = pick(rng, []int{0, 1, 5, 200, 2000})
			st.Req.StopAtPoll = 1 + rng.IntN(6000)
			if st.Req.SoftTime == 0 && st.Req.SoftNodes == 0 {
				st.Req.SoftNodes = 500
			}
		}
		if st.Sweep != nil {
			// sweeps multiply the cost: keep the schedule light
			if rng.IntN(2) == 0 {
				st.Sched = Sched{}
			} else {
				st.Sched = Sched{Quanta: []Quantum{{Polls: 50 + rng.IntN(500), CostUS: int64(rng.IntN(300))}}}
			}
		}
		if rng.IntN(10) == 0 {
			st.Clear = true
		}
		if rng.IntN(12) == 0 {
			st.Resize = pick(rng, ttSizesOut)
		}
		st.Research = rng.IntN(3) == 0
		switch rng.IntN(4) {
		case 0:
			st.Play = "" // search the same root again (warmed table)
		case 1:
			st.Play = "best"
		default:
			l := g.Cur().Legal()
			if len(l) > 0 {
				m := pick(rng, l)
				st.Play = m.String()
				g.Push(m)
			}
		}
		sc.Steps = append(sc.Steps, st)
		if st.Play == "best" {
			// the continuation is the engine's: later scripted moves could be illegal
			for j := i + 1; j < n; j++ {
				s2 := SearchStep{Req: Request{Limits: drawLimits(rng, true), StopAtPoll: -1, Output: true}, Play: "best"}
				if rng.IntN(3) == 0 {
					s2.Sweep = &Sweep{Kind: pick(rng, []string{"nodes", "stop"}), All: true, Max: maxSweep}
				}
				sc.Steps = append(sc.Steps, s2)
			}
			break
		}
	}
	return sc
}
