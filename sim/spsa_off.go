//go:build !spsa

package sim

import "errors"

// SpsaBuild reports whether the engine was built with tunable parameters.
const SpsaBuild = false

func applySpsa(sets []SpsaSet) error {
	if len(sets) > 0 {
		return errors.New("scenario sets spsa parameters but this is not an spsa build")
	}
	return nil
}

func spsaRanges() []spsaRange { return nil }
