package sim

import (
	"bufio"
	"bytes"
	"context"
	"encoding/json"
	"fmt"
	"os"
	"os/exec"
	"path/filepath"
	"runtime"
	"sort"
	"strconv"
	"strings"
	"sync"
	"syscall"
	"time"

	"verif/sim/ref"
)

// ReplayFile is what a violation is reported as.
type ReplayFile struct {
	Property      string    `json:"property"`
	Seed          uint64    `json:"seed"`
	Case          *RunCase  `json:"case"`
	Violation     Violation `json:"violation"`
	HistorySHA256 string    `json:"history_sha256,omitempty"`
	Minimised     bool      `json:"minimised"`
	Note          string    `json:"note,omitempty"`
}

var claimed = map[string]bool{"C06": true, "C07": true, "C08": true, "C13": true, "C14": true}

type driver struct {
	verifDir      string
	self          string
	tmp           string
	workers       int
	seq           int
	mu            sync.Mutex
	raceStats     map[string]any
	spsaWorkers   int
	forceGMP1     bool
	noBlockWriter bool
	legTrouble    bool // a free-running leg's process had to be killed and the engine was not to blame
	noLag         bool // C14: no case with a GUI that is behind with reading (see determinism)
	gridSeen      map[int]bool
	gridTotal     int
}

func envInt(name string, def int) int {
	if v, err := strconv.Atoi(os.Getenv(name)); err == nil {
		return v
	}
	return def
}

func driverMain(args []string) int {
	if len(args) < 1 {
		fmt.Fprintln(os.Stderr, "usage: <check ID quick|thorough> | <replay FILE> | selftest | refcheck")
		return 2
	}
	self, _ := os.Executable()
	d := &driver{gridSeen: map[int]bool{}, self: self, verifDir: os.Getenv("VERIF_DIR"), workers: envInt("VERIF_WORKERS", runtime.NumCPU())}
	if d.verifDir == "" {
		d.verifDir = "/verif"
	}
	tmp, err := os.MkdirTemp("", "verif-run-")
	if err != nil {
		fmt.Fprintln(os.Stderr, "cannot create scratch dir:", err)
		return 2
	}
	d.tmp = tmp
	defer os.RemoveAll(tmp)
	if err := ref.SelfTest(false); err != nil {
		fmt.Fprintln(os.Stderr, "HARNESS: reference model self-test failed:", err)
		return 2
	}
	if err := validateCurated(); err != nil {
		fmt.Fprintln(os.Stderr, "HARNESS:", err)
		return 2
	}
	switch args[0] {
	case "refcheck":
		fmt.Println("reference model and curated roots: ok")
		return 0
	case "check":
		if len(args) < 3 || !claimed[args[1]] || (args[2] != "quick" && args[2] != "thorough") {
			fmt.Fprintln(os.Stderr, "usage: check C06|C07|C08|C13|C14 quick|thorough")
			return 2
		}
		return d.check(args[1], args[2])
	case "replay":
		if len(args) < 2 {
			return 2
		}
		return d.replay(args[1])
	case "selftest":
		return d.selftest()
	}
	return 2
}

// spawn runs one worker process to completion and parses its output.
// hangRecord is what a worker leaves behind when its watchdog fired.
type hangRecord struct {
	Run    uint64  `json:"run"`
	Seed   uint64  `json:"seed"`
	Leg    string  `json:"leg"`
	LimitS float64 `json:"limit_s"`
	Stacks string  `json:"stacks"`
}

// hangBlame looks for a goroutine of the bubble that is running (not blocked)
// and whose innermost non-runtime frame belongs to the engine: a driver or
// search goroutine that spins without ever blocking or polling.
func hangBlame(stacks string) (bool, string) {
	for _, g := range strings.Split(stacks, "\n\n") {
		head, body, _ := strings.Cut(g, "\n")
		if !strings.Contains(head, "synctest bubble") || !(strings.Contains(head, "[running") || strings.Contains(head, "[runnable")) {
			continue
		}
		for _, l := range strings.Split(body, "\n") {
			if strings.HasPrefix(l, "\t") || strings.HasPrefix(l, "runtime.") || strings.HasPrefix(l, "created by") || strings.TrimSpace(l) == "" {
				continue
			}
			if strings.HasPrefix(l, "github.com/paulsonkoly/chess-3/") {
				return true, strings.TrimSpace(head) + " " + strings.TrimSpace(l)
			}
			if strings.HasPrefix(l, "verif/sim") {
				break
			}
		}
	}
	return false, ""
}

// hangLockHeld recognises the one hang the harness cannot avoid by itself: no
// goroutine of the bubble is running, but one waits on a sync.Mutex (held by a
// goroutine that is parked in the simulated Write). synctest never reports
// such a bubble as quiescent.
func hangLockHeld(stacks string) bool {
	lock := false
	for _, g := range strings.Split(stacks, "\n\n") {
		head, _, _ := strings.Cut(g, "\n")
		if !strings.Contains(head, "synctest bubble") {
			continue
		}
		if strings.Contains(head, "[running") || strings.Contains(head, "[runnable") {
			return false
		}
		if strings.Contains(head, "[sync.Mutex.Lock") || strings.Contains(head, "[sync.RWMutex") {
			lock = true
		}
	}
	return lock
}

type workerOut struct {
	runs    []*RunResult
	summary *WorkerSummary
	stderr  string
	err     error
	cur     string
	hang    *hangRecord
	ignore  bool // superseded by a repeat of the same run (see hangLockHeld)
}

func (d *driver) spawn(job Job, gomaxprocs int) *workerOut {
	bin := d.self
	if job.Replay != "" {
		// scenarios that set tunable parameters need the spsa build
		if b, err := os.ReadFile(job.Replay); err == nil && bytes.Contains(b, []byte(`"spsa":[{`)) || bytes.Contains(b, []byte(`"spsa": [`)) {
			if sb := os.Getenv("VERIF_SPSA_BIN"); sb != "" {
				bin = sb
			}
		}
	}
	return d.spawnBin(bin, job, gomaxprocs)
}

func (d *driver) spawnBin(bin string, job Job, gomaxprocs int) *workerOut {
	d.mu.Lock()
	d.seq++
	id := d.seq
	d.mu.Unlock()
	outPath := filepath.Join(d.tmp, fmt.Sprintf("w%d.jsonl", id))
	job.CurPath = filepath.Join(d.tmp, fmt.Sprintf("w%d.cur", id))
	job.NoBlockWriter = job.NoBlockWriter || d.noBlockWriter
	job.NoLag = job.NoLag || d.noLag
	js, _ := json.Marshal(job)
	cmd := exec.Command(bin, "-test.run=^TestWorker$", "-test.count=1", "-test.timeout=0")
	cmd.Env = append(os.Environ(), "VERIF_MODE=worker", "VERIF_JOB="+string(js), "VERIF_OUT="+outPath)
	if gomaxprocs > 0 {
		cmd.Env = append(cmd.Env, fmt.Sprintf("GOMAXPROCS=%d", gomaxprocs))
	}
	var stderr bytes.Buffer
	cmd.Stderr = &stderr
	cmd.Stdout = &stderr
	wo := &workerOut{}
	wo.err = cmd.Run()
	wo.stderr = stderr.String()
	if f, err := os.Open(outPath); err == nil {
		sc := bufio.NewScanner(f)
		sc.Buffer(make([]byte, 1<<20), 1<<28)
		for sc.Scan() {
			line := sc.Bytes()
			var probe struct {
				Type string `json:"type"`
			}
			if json.Unmarshal(line, &probe) != nil {
				continue
			}
			switch probe.Type {
			case "run":
				rr := &RunResult{}
				if json.Unmarshal(line, rr) == nil {
					wo.runs = append(wo.runs, rr)
				}
			case "summary":
				s := &WorkerSummary{}
				if json.Unmarshal(line, s) == nil {
					wo.summary = s
				}
			case "hang":
				h := &hangRecord{}
				if json.Unmarshal(line, h) == nil {
					wo.hang = h
				}
			}
		}
		f.Close()
		os.Remove(outPath)
	}
	if b, err := os.ReadFile(job.CurPath); err == nil {
		wo.cur = string(b)
	}
	os.Remove(job.CurPath)
	return wo
}

// caseFromSidecar rebuilds the scenario a dead worker was executing.
func caseFromSidecar(cur string) *RunCase {
	lines := strings.Split(strings.TrimSpace(cur), "\n")
	if len(lines) == 0 || lines[0] == "" {
		return nil
	}
	rc := &RunCase{}
	if json.Unmarshal([]byte(lines[0]), rc) != nil {
		return nil
	}
	if rc.UCI != nil && rc.UCICfg != nil {
		rc.UCI.Steps = nil
		rc.UCI.Stubs = nil
		for _, l := range lines[1:] {
			var rec struct {
				Step *UStep  `json:"step"`
				Stub *StubGo `json:"stub"`
			}
			if json.Unmarshal([]byte(l), &rec) != nil {
				continue
			}
			if rec.Step != nil {
				rc.UCI.Steps = append(rc.UCI.Steps, *rec.Step)
			}
			if rec.Stub != nil {
				rc.UCI.Stubs = append(rc.UCI.Stubs, *rec.Stub)
			}
		}
		rc.UCICfg = nil
	}
	return rc
}

// crashBlame decides whether a dead worker's panic trace blames the system
// under test: the innermost non-runtime frame of the panicking goroutine must
// belong to the engine, not to the harness.
func crashBlame(stderr string) (bool, string) {
	i := strings.Index(stderr, "panic:")
	if j := strings.Index(stderr, "fatal error:"); i < 0 || (j >= 0 && j < i) {
		i = j
	}
	if i < 0 {
		return false, ""
	}
	msg := stderr[i:]
	first, _, _ := strings.Cut(msg, "\n")
	k := strings.Index(msg, "goroutine ")
	if k < 0 {
		return false, first
	}
	block, _, _ := strings.Cut(msg[k:], "\n\n")
	for _, l := range strings.Split(block, "\n") {
		if strings.HasPrefix(l, "\t") || strings.HasPrefix(l, "goroutine ") || strings.HasPrefix(l, "panic(") ||
			strings.HasPrefix(l, "runtime.") || strings.HasPrefix(l, "created by") || strings.TrimSpace(l) == "" {
			continue
		}
		if strings.HasPrefix(l, "github.com/paulsonkoly/chess-3/") {
			return true, first + " in " + strings.TrimSpace(l)
		}
		if strings.HasPrefix(l, "verif/sim") {
			return false, first + " in " + strings.TrimSpace(l)
		}
		// a frame of the standard library (sync.WaitGroup.Go's re-panic wrapper,
		// fmt, bufio ...): whoever called it decides
	}
	return false, first
}

// raceOut is the result of one process of the free-running -race leg.
type raceOut struct {
	sum    *RaceSummary
	stderr string
	err    error
	report string // first DATA RACE report, if any
	panicS string
	last   string // last RACE-SESSION line before the process ended
	hung   string // non-empty: the process was still running long after its budget; what it was doing
	hungE  bool   // ... and a goroutine was running inside the engine
}

// freeRunningBlame looks, in the goroutine dump of a free-running leg's
// process, for a goroutine that is running (or runnable) with an engine frame
// innermost.
func freeRunningBlame(stacks string) (bool, string) {
	for _, g := range strings.Split(stacks, "\n\n") {
		head, body, _ := strings.Cut(g, "\n")
		if !(strings.Contains(head, "[running") || strings.Contains(head, "[runnable")) {
			continue
		}
		for _, l := range strings.Split(body, "\n") {
			if strings.HasPrefix(l, "\t") || strings.HasPrefix(l, "runtime.") || strings.HasPrefix(l, "created by") || strings.TrimSpace(l) == "" {
				continue
			}
			if strings.HasPrefix(l, "github.com/paulsonkoly/chess-3/") {
				return true, strings.TrimSpace(l)
			}
			if strings.HasPrefix(l, "verif/sim") || strings.HasPrefix(l, "testing.") {
				break // the harness's own code is running, not the engine
			}
			// (a standard library frame called from further down: keep looking)
		}
	}
	return false, ""
}

// hungLeg turns a free-running process that was still busy long after its
// budget into a finding (a goroutine running inside the engine: the search
// does not return) or into harness trouble (anything else).
func (d *driver) hungLeg(prop, leg, name string, master uint64, ro *raceOut, found *[]finding) {
	var idx uint64
	fmt.Sscanf(ro.last, "RACE-SESSION seed=%d index=%d", new(uint64), &idx)
	if !ro.hungE {
		fmt.Fprintf(os.Stderr, "HARNESS: a process of the %s made no progress for 90 s or was still running 150 s after its budget (%s); %s\n", name, ro.hung, ro.last)
		d.legTrouble = true
		return
	}
	v := Violation{Property: prop, Kind: "livelock", Detail: fmt.Sprintf("[%s] no game finished for 90 s: a search does not return; it is running inside %s (%s)", name, ro.hung, ro.last)}
	rc := &RunCase{Property: prop, Leg: leg, Seed: master, Run: idx}
	*found = append(*found, finding{run: &RunResult{Leg: leg, Run: idx, Seed: master, Case: rc, Violations: []Violation{v}}, v: v, from: "race"})
}

func (d *driver) spawnRace(job RaceJob, gomaxprocs int) *raceOut {
	return d.spawnRaceTest("TestRaceLeg", "VERIF_RACE_JOB", job, gomaxprocs)
}

func (d *driver) spawnRaceTest(test, envName string, job RaceJob, gomaxprocs int) *raceOut {
	bin := os.Getenv("VERIF_RACE_BIN")
	ro := &raceOut{}
	if bin == "" {
		ro.err = fmt.Errorf("no race binary")
		return ro
	}
	d.mu.Lock()
	d.seq++
	id := d.seq
	d.mu.Unlock()
	outPath := filepath.Join(d.tmp, fmt.Sprintf("race%d.json", id))
	js, _ := json.Marshal(job)
	// these legs run on real threads without a scheduler of ours: a search that
	// never returns would keep the process (and the check) alive for ever
	limit := time.Duration(job.BudgetS*float64(time.Second)) + 150*time.Second
	if job.BudgetS == 0 {
		limit = 300 * time.Second
	}
	ctx, cancel := context.WithTimeout(context.Background(), limit)
	defer cancel()
	cmd := exec.CommandContext(ctx, bin, "-test.run=^"+test+"$", "-test.count=1", "-test.timeout=0")
	cmd.Cancel = func() error { return cmd.Process.Signal(syscall.SIGQUIT) } // goroutine dump, then exit
	cmd.WaitDelay = 20 * time.Second
	cmd.Env = append(os.Environ(), "VERIF_MODE=worker", envName+"="+string(js), "VERIF_OUT="+outPath, "GORACE=halt_on_error=1 exitcode=66", fmt.Sprintf("GOMAXPROCS=%d", gomaxprocs))
	var stderr bytes.Buffer
	cmd.Stderr = &stderr
	cmd.Stdout = &stderr
	ro.err = cmd.Run()
	ro.stderr = stderr.String()
	if i := strings.Index(ro.stderr, "PARALLEL-LEG-STUCK"); i >= 0 {
		ro.hungE, ro.hung = freeRunningBlame(ro.stderr[i:])
		if ro.hung == "" {
			ro.hung = "no goroutine running inside the engine"
		}
		for _, l := range strings.Split(ro.stderr[:i], "\n") {
			if strings.HasPrefix(l, "RACE-SESSION") {
				ro.last = l
			}
		}
		return ro
	}
	if ctx.Err() == context.DeadlineExceeded {
		ro.hungE, ro.hung = freeRunningBlame(ro.stderr)
		if ro.hung == "" {
			ro.hung = "no goroutine running inside the engine"
		}
		for _, l := range strings.Split(ro.stderr, "\n") {
			if strings.HasPrefix(l, "RACE-SESSION") {
				ro.last = l
			}
		}
		return ro
	}
	if b, err := os.ReadFile(outPath); err == nil {
		s := &RaceSummary{}
		if json.Unmarshal(bytes.TrimSpace(b), s) == nil {
			ro.sum = s
		}
		os.Remove(outPath)
	}
	for _, l := range strings.Split(ro.stderr, "\n") {
		if strings.HasPrefix(l, "RACE-SESSION") {
			ro.last = l
		}
	}
	if i := strings.Index(ro.stderr, "WARNING: DATA RACE"); i >= 0 {
		rep := ro.stderr[i:]
		if j := strings.Index(rep, "=================="); j > 0 {
			rep = rep[:j]
		}
		ro.report = rep
	} else if blame, what := crashBlame(ro.stderr); blame {
		ro.panicS = what
	}
	return ro
}

// raceSites condenses a race report to the functions of the two accesses.
func raceSites(report string) string {
	var sites []string
	lines := strings.Split(report, "\n")
	for i, l := range lines {
		t := strings.TrimSpace(l)
		if (strings.HasPrefix(t, "Read at") || strings.HasPrefix(t, "Write at") || strings.HasPrefix(t, "Previous read") || strings.HasPrefix(t, "Previous write")) && i+1 < len(lines) {
			sites = append(sites, strings.Fields(t)[0]+" "+strings.Fields(t)[1]+" in "+strings.TrimSpace(lines[i+1]))
		}
	}
	return strings.Join(sites, " vs ")
}

func (d *driver) budget(tier string) float64 {
	if v, err := strconv.ParseFloat(os.Getenv("VERIF_BUDGET_S"), 64); err == nil && v > 0 {
		return v
	}
	if tier == "thorough" {
		return 1500
	}
	return 55
}

func masterSeed() uint64 {
	if v, err := strconv.ParseUint(os.Getenv("VERIF_SEED"), 10, 64); err == nil {
		return v
	}
	if v, err := strconv.ParseInt(os.Getenv("VERIF_SEED"), 10, 64); err == nil {
		return uint64(v)
	}
	return 20261003
}

type finding struct {
	run  *RunResult
	v    Violation
	from string
}

func (d *driver) check(prop, tier string) int {
	t0 := time.Now()
	master := masterSeed()
	fmt.Printf("check %s tier=%s VERIF_SEED=%d workers=%d spsa_build=%v\n", prop, tier, master, d.workers, SpsaBuild)
	kf, err := loadKnownFindings(filepath.Join(d.verifDir, "known_findings.json"))
	if err != nil {
		fmt.Fprintln(os.Stderr, "HARNESS: known_findings.json:", err)
		return 2
	}
	exit := 0
	violations := 0
	knownPrinted := map[string]bool{}

	// 1. canonical scenarios of recorded findings: open ones must still be
	// explained by their entry, fixed ones must stay fixed.
	for _, f := range kf.Findings {
		if f.Property != prop || f.Canonical == "" {
			continue
		}
		path := filepath.Join(d.verifDir, f.Canonical)
		wo := d.spawn(Job{Property: prop, Tier: tier, Replay: path}, 0)
		if wo.summary == nil {
			fmt.Fprintf(os.Stderr, "HARNESS: canonical scenario %s did not run: %v\n%s\n", f.Canonical, wo.err, tail(wo.stderr, 2000))
			return 2
		}
		var hit *Violation
		for _, rr := range wo.runs {
			for i, v := range rr.Violations {
				if v.Property == prop && f.matches(rr.Case, v) {
					hit = &rr.Violations[i]
				}
			}
		}
		switch {
		case f.Status == "open" && hit != nil:
			if !knownPrinted[f.ID] {
				fmt.Printf("KNOWN-FINDING: property=%s %s [%s]\n", prop, f.What, f.ID)
				knownPrinted[f.ID] = true
			}
		case f.Status == "open" && hit == nil:
			fmt.Printf("note: known finding %s no longer reproduces on its canonical scenario\n", f.ID)
		case f.Status == "fixed" && hit != nil:
			// regression of a repaired defect
			p := d.writeReplay(prop, &ReplayFile{Property: prop, Case: mustCase(path), Violation: *hit, Note: "regression of fixed finding " + f.ID})
			fmt.Printf("VIOLATION property=%s replay=%s\n", prop, p)
			fmt.Printf("  %s (canonical scenario of fixed finding %s fails again)\n", hit, f.ID)
			violations++
			exit = 1
		}
	}

	// 2. the harness must be deterministic before anything it says is believed
	if code := d.determinism(prop, tier, master, 5); code != 0 {
		return code
	}

	// 3. fan out
	budget := d.budget(tier) - time.Since(t0).Seconds()
	if budget < 5 {
		budget = 5
	}
	slots := make([][]*workerOut, d.workers)
	var wg sync.WaitGroup
	fanStart := time.Now()
	for i := 0; i < d.workers; i++ {
		wg.Add(1)
		go func(i int) {
			defer wg.Done()
			gmp := []int{1, 4, 16}[i%3]
			if d.forceGMP1 {
				gmp = 1
			}
			bin := d.self
			if sb := os.Getenv("VERIF_SPSA_BIN"); sb != "" && ((tier == "thorough" && i%2 == 1) || (tier == "quick" && i%8 == 7)) {
				bin = sb
			}
			if bin != d.self {
				d.mu.Lock()
				d.spsaWorkers++
				d.mu.Unlock()
			}
			job := Job{Property: prop, Tier: tier, Master: master, Worker: i, Workers: d.workers, BudgetS: budget, MaxRuns: envInt("VERIF_MAX_RUNS", 0)}
			for restarts := 0; ; restarts++ {
				wo := d.spawnBin(bin, job, gmp)
				slots[i] = append(slots[i], wo)
				left := budget - time.Since(fanStart).Seconds()
				if left < 2 || restarts > 2000 {
					return
				}
				switch {
				case wo.summary != nil && wo.summary.Restart:
					// a run left a deadlocked driver behind: continue in a fresh process
					job.SkipK = wo.summary.NextK
				case wo.summary == nil && wo.hang != nil && hangLockHeld(wo.hang.Stacks):
					// see hangLockHeld: repeat the run, and do everything from here on,
					// with the non-blocking writer
					d.mu.Lock()
					if !d.noBlockWriter {
						fmt.Printf("note: the code under test holds a lock while it writes to the GUI; output back-pressure is not simulated from here on (every write is accepted at once)\n")
					}
					d.noBlockWriter = true
					d.mu.Unlock()
					wo.ignore = true
					rc := caseFromSidecar(wo.cur)
					if rc == nil {
						return
					}
					job.SkipK = int((rc.Run - job.FirstRun - uint64(i)) / uint64(d.workers))
				case wo.summary == nil:
					// the process died; if the engine is to blame the run is a finding
					// and the exploration goes on behind it
					blame, _ := crashBlame(wo.stderr)
					if wo.hang != nil {
						blame, _ = hangBlame(wo.hang.Stacks)
					}
					rc := caseFromSidecar(wo.cur)
					if !blame || rc == nil {
						return
					}
					job.SkipK = int((rc.Run-job.FirstRun-uint64(i))/uint64(d.workers)) + 1
				default:
					return
				}
				job.BudgetS = left
			}
		}(i)
	}
	wg.Wait()
	var outs []*workerOut
	for _, sl := range slots {
		outs = append(outs, sl...)
	}

	// 4. collect
	agg := &WorkerSummary{Stats: map[string]int64{}, LegRuns: map[string]int{}}
	sigs := map[uint64]struct{}{}
	var found []finding
	others := map[string]int{}
	otherFirst := map[string]string{}
	for i, wo := range outs {
		if wo.ignore {
			for _, rr := range wo.runs {
				for _, v := range rr.Violations {
					if v.Property == prop {
						found = append(found, finding{run: rr, v: v})
					}
				}
			}
			continue
		}
		if wo.summary == nil {
			// the worker died: a panic outside the search seam
			blame, what := crashBlame(wo.stderr)
			kindOverride := ""
			if wo.hang != nil {
				blame, what = hangBlame(wo.hang.Stacks)
				kindOverride = "livelock"
				if !blame {
					what = fmt.Sprintf("run %d (seed %d, leg %s) exceeded the %v s watchdog with no engine goroutine running", wo.hang.Run, wo.hang.Seed, wo.hang.Leg, wo.hang.LimitS)
				}
			}
			rc := caseFromSidecar(wo.cur)
			if rc == nil || !blame {
				fmt.Fprintf(os.Stderr, "HARNESS: worker %d died without a verdict (%v): %s\n%s\n", i, wo.err, what, tail(wo.stderr, 3000))
				return 2
			}
			kind := "panic"
			if strings.HasPrefix(what, "fatal error:") {
				kind = "fatal"
			}
			v := Violation{Property: propertyOfCrash(prop), Kind: kind, Detail: "driver process died: " + what}
			if kindOverride != "" {
				v = Violation{Property: prop, Kind: kindOverride, Detail: fmt.Sprintf("a goroutine of the engine ran for more than %v s of real time without blocking or reaching an abort poll: %s", wo.hang.LimitS, what)}
			}
			found = append(found, finding{run: &RunResult{Run: rc.Run, Seed: rc.Seed, Leg: rc.Leg, Case: rc, Violations: []Violation{v}}, v: v, from: "crash"})
			agg.Runs++
			agg.Stats["driver_process_crashes"]++
			for _, rr := range wo.runs {
				for _, v := range rr.Violations {
					if v.Property == prop {
						found = append(found, finding{run: rr, v: v})
					}
				}
			}
			continue
		}
		s := wo.summary
		agg.Runs += s.Runs
		agg.SimS += s.SimS
		agg.Inconclusive += s.Inconclusive
		agg.AllSigs += s.AllSigs
		if s.WallS > agg.WallS {
			agg.WallS = s.WallS
		}
		for k, v := range s.Stats {
			agg.Stats[k] += v
		}
		for k, v := range s.LegRuns {
			agg.LegRuns[k] += v
		}
		for _, x := range s.Sigs {
			sigs[x] = struct{}{}
		}
		for _, k := range s.GridSlices {
			d.gridSeen[k] = true
		}
		if s.GridTotal > 0 {
			d.gridTotal = s.GridTotal
		}
		if len(agg.Samples) < 3 {
			agg.Samples = append(agg.Samples, s.Samples...)
		}
		agg.Seeds = append(agg.Seeds, s.Seeds...)
		for _, rr := range wo.runs {
			for _, v := range rr.Violations {
				switch {
				case v.Property == prop:
					found = append(found, finding{run: rr, v: v})
				case v.Property == "HARNESS":
					others["HARNESS/"+v.Kind]++
					if otherFirst["HARNESS/"+v.Kind] == "" {
						otherFirst["HARNESS/"+v.Kind] = fmt.Sprintf("run %d seed %d: %s", rr.Run, rr.Seed, v.Detail)
					}
				default:
					if k := kf.match(v.Property, rr.Case, v); k != nil && k.Status == "open" {
						others["known finding "+k.ID+" ("+v.Property+")"]++
						continue
					}
					others[v.Property+"/"+v.Kind]++
					if otherFirst[v.Property+"/"+v.Kind] == "" {
						otherFirst[v.Property+"/"+v.Kind] = fmt.Sprintf("run %d seed %d: %s", rr.Run, rr.Seed, v.Detail)
					}
				}
			}
		}
	}
	// 4b. auxiliary free-running leg under the race detector (C13 only)
	raceStats := map[string]any{}
	if prop == "C13" && os.Getenv("VERIF_RACE_BIN") != "" && os.Getenv("VERIF_NO_RACE_LEG") == "" {
		rb, procs := 12.0, 6
		if tier == "thorough" {
			rb, procs = d.budget(tier)/5, 8
		}
		if v, err := strconv.ParseFloat(os.Getenv("VERIF_RACE_BUDGET_S"), 64); err == nil {
			rb = v
		}
		ros := make([]*raceOut, procs)
		var rwg sync.WaitGroup
		for i := 0; i < procs; i++ {
			rwg.Add(1)
			go func(i int) {
				defer rwg.Done()
				ros[i] = d.spawnRace(RaceJob{Seed: master, BudgetS: rb, First: i * 1_000_000}, []int{2, 4, 8}[i%3])
			}(i)
		}
		rwg.Wait()
		sessions, searches, incon, races := 0, 0, 0, 0
		for _, ro := range ros {
			if ro.sum != nil {
				sessions += ro.sum.Sessions
				searches += ro.sum.Searches
				incon += ro.sum.Inconclusive
				for k, v := range ro.sum.Stats {
					agg.Stats["raceleg_"+k] += v
				}
				for _, v := range ro.sum.Violations {
					rc := &RunCase{Property: prop, Leg: "race", Seed: master}
					found = append(found, finding{run: &RunResult{Leg: "race", Seed: master, Case: rc, Violations: []Violation{v}}, v: v, from: "race"})
				}
			}
			if ro.report != "" || ro.panicS != "" {
				races++
				var idx uint64
				fmt.Sscanf(ro.last, "RACE-SESSION seed=%d index=%d", new(uint64), &idx)
				v := Violation{Property: prop, Kind: "data-race", Detail: "[free-running leg, -race] " + raceSites(ro.report) + " :: " + tail(ro.report, 1500)}
				if ro.report == "" {
					v = Violation{Property: prop, Kind: "panic", Detail: "[free-running leg] driver process died: " + ro.panicS}
				}
				rc := &RunCase{Property: prop, Leg: "race", Seed: master, Run: idx}
				found = append(found, finding{run: &RunResult{Leg: "race", Run: idx, Seed: master, Case: rc, Violations: []Violation{v}}, v: v, from: "race"})
			} else if ro.hung != "" {
				d.hungLeg(prop, "race", "free-running leg", master, ro, &found)
			} else if ro.sum == nil {
				fmt.Fprintf(os.Stderr, "note: a race-leg process ended without a summary (%v): %s\n", ro.err, tail(ro.stderr, 600))
			}
		}
		raceStats = map[string]any{"sessions": sessions, "searches": searches, "inconclusive_sessions": incon, "race_reports": races, "processes": procs, "budget_s_each": rb,
			"instant_stub_sessions":           agg.Stats["raceleg_race_instant_sessions"],
			"ponderhit_written_behind_the_go": agg.Stats["raceleg_fault_ponderhit_at_search_end"],
			"note":                            "auxiliary: real goroutine scheduling and real clock under the race detector; not deterministic, replay best effort; the verdict of C13 rests on the deterministic leg. instant_stub_sessions: one-search sessions of the real driver against a stub search that returns at once, whole script readable at once (the select race of DESIGN.md 5.4)"}
		fmt.Printf("race leg: %d free-running sessions, %d searches, %d inconclusive, %d race reports\n", sessions, searches, incon, races)
	}
	if prop == "C08" && os.Getenv("VERIF_RACE_BIN") != "" && os.Getenv("VERIF_NO_RACE_LEG") == "" {
		rb, procs := 10.0, 4
		if tier == "thorough" {
			rb, procs = d.budget(tier)/6, 4
		}
		if v, err := strconv.ParseFloat(os.Getenv("VERIF_RACE_BUDGET_S"), 64); err == nil {
			rb = v
		}
		ros := make([]*raceOut, procs)
		var rwg sync.WaitGroup
		for i := 0; i < procs; i++ {
			rwg.Add(1)
			go func(i int) {
				defer rwg.Done()
				ros[i] = d.spawnRaceTest("TestParallelLeg", "VERIF_PAR_JOB", RaceJob{Seed: master, BudgetS: rb, First: i * 1_000_000}, 4)
			}(i)
		}
		rwg.Wait()
		sessions, searches, races := 0, 0, 0
		for _, ro := range ros {
			if ro.sum != nil {
				sessions += ro.sum.Sessions
				searches += ro.sum.Searches
				for _, v := range ro.sum.Violations {
					rc := &RunCase{Property: prop, Leg: "parallel", Seed: master}
					found = append(found, finding{run: &RunResult{Leg: "parallel", Seed: master, Case: rc, Violations: []Violation{v}}, v: v, from: "race"})
				}
			}
			if ro.report != "" || ro.panicS != "" {
				races++
				var idx uint64
				fmt.Sscanf(ro.last, "RACE-SESSION seed=%d index=%d", new(uint64), &idx)
				v := Violation{Property: prop, Kind: "data-race", Detail: "[parallel leg, -race] " + raceSites(ro.report) + " :: " + tail(ro.report, 1500)}
				if ro.report == "" {
					v = Violation{Property: prop, Kind: "panic", Detail: "[parallel leg] process died: " + ro.panicS}
				}
				rc := &RunCase{Property: prop, Leg: "parallel", Seed: master, Run: idx}
				found = append(found, finding{run: &RunResult{Leg: "parallel", Run: idx, Seed: master, Case: rc, Violations: []Violation{v}}, v: v, from: "race"})
			} else if ro.hung != "" {
				d.hungLeg(prop, "parallel", "parallel leg", master, ro, &found)
			} else if ro.sum == nil {
				fmt.Fprintf(os.Stderr, "note: a parallel-leg process ended without a summary (%v): %s\n", ro.err, tail(ro.stderr, 600))
			}
		}
		raceStats = map[string]any{"sessions": sessions, "searches": searches, "race_reports": races, "processes": procs, "budget_s_each": rb,
			"note": "auxiliary: 2-4 engine instances play the same scripted game at the same time on real threads (race detector on) and must report what one engine reports alone; the oracle is schedule independent; replay best effort"}
		fmt.Printf("parallel leg: %d games on 2-4 simultaneous engines, %d searches, %d race reports\n", sessions, searches, races)
	}
	d.raceStats = raceStats
	sort.SliceStable(found, func(i, j int) bool { return found[i].run.Run < found[j].run.Run })

	// 5. classify: recorded findings are named, anything else is a violation
	reported := map[string]bool{}
	for _, f := range found {
		if kfm := kf.match(prop, f.run.Case, f.v); kfm != nil && kfm.Status == "open" {
			if !knownPrinted[kfm.ID] {
				fmt.Printf("KNOWN-FINDING: property=%s %s [%s]\n", prop, kfm.What, kfm.ID)
				knownPrinted[kfm.ID] = true
			}
			agg.Stats["known_finding_hits"]++
			continue
		}
		key := f.v.Kind
		if reported[key] {
			agg.Stats["violations_not_reported_again"]++
			continue
		}
		reported[key] = true
		violations++
		exit = 1
		rf := &ReplayFile{Property: prop, Seed: f.run.Seed, Case: f.run.Case, Violation: f.v}
		if f.from == "race" {
			rf.Note = "free-running leg: replay re-runs the session under the race detector several times (best effort, not deterministic)"
			p := d.writeReplay(prop, rf)
			fmt.Printf("VIOLATION property=%s replay=%s\n", prop, p)
			fmt.Printf("  kind=%s leg=race seed=%d session=%d\n  %s\n", f.v.Kind, f.run.Seed, f.run.Run, tail(f.v.Detail, 1200))
			continue
		}
		if violations <= 3 && os.Getenv("VERIF_NO_MINIMISE") == "" && f.v.Kind != "livelock" {
			d.minimise(rf, kf) // (a livelock costs a watchdog period per replay: reported unminimised)
		}
		p := d.writeReplay(prop, rf)
		// the replay file must reproduce in a fresh process
		wo := d.spawn(Job{Property: prop, Tier: tier, Replay: p}, 0)
		ok := false
		for _, rr := range wo.runs {
			for _, v := range rr.Violations {
				if v.Property == prop && v.Kind == f.v.Kind {
					ok = true
				}
			}
			if rr.HistHash != "" {
				// record the history the replay produces: a later replay must produce the same one
				rf.HistorySHA256 = rr.HistHash
				d.writeReplay(prop, rf)
			}
		}
		if wo.summary == nil {
			if b, _ := crashBlame(wo.stderr); b {
				ok = true
			}
			if wo.hang != nil {
				if b, _ := hangBlame(wo.hang.Stacks); b && f.v.Kind == "livelock" {
					ok = true
				}
			}
		}
		fmt.Printf("VIOLATION property=%s replay=%s\n", prop, p)
		fmt.Printf("  kind=%s seed=%d run=%d leg=%s minimised=%v replay_reproduces=%v\n  %s\n", f.v.Kind, f.run.Seed, f.run.Run, f.run.Leg, rf.Minimised, ok, f.v.Detail)
	}
	if n := agg.Stats["violations_not_reported_again"]; n > 0 {
		fmt.Printf("  (%d further violation instances of already reported kinds)\n", n)
	}
	for k, n := range others {
		fmt.Printf("note: %d observation(s) of %s during this check (not this property; not a verdict here); first: %s\n", n, k, tail(otherFirst[k], 400))
	}

	// 6. evidence
	wall := time.Since(t0).Seconds()
	if agg.Runs == 0 {
		fmt.Fprintln(os.Stderr, "HARNESS: no run completed")
		return 2
	}
	if agg.Inconclusive*10 > agg.Runs && violations == 0 {
		// (a violation found stays a violation however many other runs were inconclusive)
		fmt.Fprintf(os.Stderr, "HARNESS: %d of %d runs inconclusive\n", agg.Inconclusive, agg.Runs)
		return 2
	}
	if err := d.writeEvidence(prop, tier, master, agg, len(sigs), violations, wall, knownPrinted); err != nil {
		fmt.Fprintln(os.Stderr, "HARNESS: cannot write evidence:", err)
		return 2
	}
	fmt.Printf("%s %s: runs=%d searches=%d distinct_nontrivial=%d simulated=%.1fs wall=%.1fs violations=%d known_findings=%d\n",
		prop, tier, agg.Runs, agg.Stats["searches"], len(sigs), agg.SimS, wall, violations, len(knownPrinted))
	if d.legTrouble && violations == 0 {
		return 2
	}
	return exit
}

func propertyOfCrash(prop string) string { return prop }

func tail(s string, n int) string {
	if len(s) > n {
		return "..." + s[len(s)-n:]
	}
	return s
}

func mustCase(path string) *RunCase {
	var rf ReplayFile
	b, err := os.ReadFile(path)
	if err == nil {
		json.Unmarshal(b, &rf)
	}
	return rf.Case
}

func (d *driver) writeReplay(prop string, rf *ReplayFile) string {
	dir := filepath.Join(d.verifDir, "replays")
	os.MkdirAll(dir, 0o755)
	name := fmt.Sprintf("%s-%s-%d.json", prop, rf.Violation.Kind, rf.Seed)
	p := filepath.Join(dir, name)
	b, _ := json.MarshalIndent(rf, "", " ")
	os.WriteFile(p, b, 0o644)
	return p
}

// determinism runs the first n seeds of the check twice in separate processes
// under different GOMAXPROCS and compares the per-run history hashes.
func (d *driver) determinism(prop, tier string, master uint64, n int) int {
	if code, diverged := d.determinismAt(prop, tier, master, n, 1, 16); !diverged {
		return code
	}
	// The code under test may make something observable depend on how its own
	// goroutines are scheduled between two quiescent points (e.g. a writer that
	// batches whatever lines happen to be queued). Such code is explored with
	// one OS thread per worker, where the Go scheduler's order is reproducible.
	if code, diverged := d.determinismAt(prop, tier, master, n, 1, 1); diverged {
		if prop == "C14" && !d.noLag {
			// What the code under test does with lines the GUI has not read yet may
			// depend on a choice the Go runtime makes at random (a select with
			// several ready cases). The C14 statement is about clock values, not
			// about an unread pipe: go on with a GUI that reads every line at once.
			fmt.Printf("note: C14 sessions with a GUI that is behind with reading are not reproducible with this tree; they are left out (every line is read at once)\n")
			d.noLag = true
			return d.determinism(prop, tier, master, n)
		}
		fmt.Fprintf(os.Stderr, "HARNESS: %s is not deterministic across processes even on one thread; refusing to report\n", prop)
		return 2
	} else if code != 0 {
		return code
	}
	fmt.Printf("note: histories differ between GOMAXPROCS 1 and 16 but are reproducible on one thread; all workers run with GOMAXPROCS=1\n")
	d.forceGMP1 = true
	return 0
}

func (d *driver) determinismAt(prop, tier string, master uint64, n, gmpA, gmpB int) (code int, diverged bool) {
	job := Job{Property: prop, Tier: tier, Master: master, Worker: 0, Workers: 1, MaxRuns: n, Hashes: true, BudgetS: 40}
	var a, b *workerOut
	var wg sync.WaitGroup
	wg.Add(2)
	go func() { defer wg.Done(); a = d.spawn(job, gmpA) }()
	go func() { defer wg.Done(); b = d.spawn(job, gmpB) }()
	wg.Wait()
	if !d.noBlockWriter {
		for _, wo := range []*workerOut{a, b} {
			if wo.summary == nil && wo.hang != nil && hangLockHeld(wo.hang.Stacks) {
				fmt.Printf("note: the code under test holds a lock while it writes to the GUI; synctest cannot see a bubble with a goroutine waiting on a sync.Mutex as quiescent, so output back-pressure is not simulated in this run (every write is accepted at once)\n")
				d.noBlockWriter = true
				return d.determinismAt(prop, tier, master, n, gmpA, gmpB)
			}
		}
	}
	if a.summary == nil || b.summary == nil {
		// a crash here is handled by the main fan-out (same seeds are run again)
		return 0, false
	}
	ha, hb := map[uint64]string{}, map[uint64]string{}
	for _, r := range a.runs {
		ha[r.Run] = r.HistHash
	}
	for _, r := range b.runs {
		hb[r.Run] = r.HistHash
	}
	for run, h := range ha {
		if h2, ok := hb[run]; ok && h2 != h {
			fmt.Fprintf(os.Stderr, "note: run %d of %s differs between two processes (GOMAXPROCS %d and %d): history %s vs %s\n", run, prop, gmpA, gmpB, h, h2)
			return 0, true
		}
	}
	return 0, false
}

func (d *driver) replay(path string) int {
	b, err := os.ReadFile(path)
	if err != nil {
		fmt.Fprintln(os.Stderr, err)
		return 2
	}
	var rf ReplayFile
	if err := json.Unmarshal(b, &rf); err != nil || rf.Case == nil {
		fmt.Fprintln(os.Stderr, "bad replay file:", err)
		return 2
	}
	if rf.Case.Leg == "race" || rf.Case.Leg == "parallel" {
		for try := 0; try < 25; try++ {
			ro := d.spawnRace(RaceJob{Seed: rf.Case.Seed, Sessions: 1, First: int(rf.Case.Run)}, []int{2, 4, 8}[try%3])
			if rf.Case.Leg == "parallel" {
				ro = d.spawnRaceTest("TestParallelLeg", "VERIF_PAR_JOB", RaceJob{Seed: rf.Case.Seed, Sessions: 1, First: int(rf.Case.Run)}, 4)
			}
			if ro.report != "" {
				fmt.Printf("attempt %d: %s\n%s\n", try+1, raceSites(ro.report), tail(ro.report, 2500))
				fmt.Printf("VIOLATION property=%s replay=%s\n", rf.Property, path)
				return 1
			}
			if ro.sum != nil && len(ro.sum.Violations) > 0 {
				fmt.Printf("attempt %d: %v\n", try+1, ro.sum.Violations[0])
				fmt.Printf("VIOLATION property=%s replay=%s\n", rf.Property, path)
				return 1
			}
		}
		fmt.Printf("replay of %s: no race report in 25 attempts (this leg is not deterministic)\n", path)
		return 0
	}
	wo := d.spawn(Job{Property: rf.Property, Replay: path, Keep: true}, 0)
	if wo.summary == nil && wo.hang != nil {
		if blame, what := hangBlame(wo.hang.Stacks); blame {
			fmt.Printf("VIOLATION property=%s replay=%s\n  livelock: %s\n", rf.Property, path, what)
			return 1
		}
		fmt.Println("replay exceeded the watchdog with no engine goroutine running")
		return 2
	}
	if wo.summary == nil {
		blame, what := crashBlame(wo.stderr)
		fmt.Println(tail(wo.stderr, 4000))
		if blame {
			fmt.Printf("VIOLATION property=%s replay=%s\n  driver process died: %s\n", rf.Property, path, what)
			return 1
		}
		return 2
	}
	code := 0
	for _, rr := range wo.runs {
		if os.Getenv("VERIF_SHOW_HISTORY") != "" {
			for _, h := range rr.History {
				fmt.Println("  |", h)
			}
		}
		fmt.Printf("history_sha256=%s", rr.HistHash)
		if rf.HistorySHA256 != "" {
			fmt.Printf(" (recorded %s: identical=%v)", rf.HistorySHA256, rf.HistorySHA256 == rr.HistHash)
		}
		fmt.Println()
		for _, v := range rr.Violations {
			fmt.Printf("  %s\n", v)
			if v.Property == rf.Property && v.Kind == rf.Violation.Kind {
				code = 1
			}
		}
	}
	if code == 1 {
		fmt.Printf("VIOLATION property=%s replay=%s\n", rf.Property, path)
	} else {
		fmt.Printf("replay of %s: violation %s/%s not reproduced\n", path, rf.Property, rf.Violation.Kind)
	}
	return code
}

// selftest proves determinism on a large sample: many seeds per world, twice
// each, in separate processes, under GOMAXPROCS 1, 4 and 16.
func (d *driver) selftest() int {
	n := envInt("VERIF_SELFTEST_RUNS", 40)
	bad := 0
	for _, prop := range []string{"C06", "C07", "C08", "C13", "C14"} {
		type res struct {
			gmp int
			wo  *workerOut
		}
		var rs []res
		var mu sync.Mutex
		var wg sync.WaitGroup
		for _, gmp := range []int{1, 4, 16, 1, 16} {
			wg.Add(1)
			go func(gmp int) {
				defer wg.Done()
				wo := d.spawn(Job{Property: prop, Tier: "quick", Master: masterSeed(), Worker: 0, Workers: 1, MaxRuns: n, Hashes: true}, gmp)
				mu.Lock()
				rs = append(rs, res{gmp, wo})
				mu.Unlock()
			}(gmp)
		}
		wg.Wait()
		base := map[uint64]string{}
		for i, r := range rs {
			if r.wo.summary == nil {
				fmt.Printf("selftest %s: worker died: %s\n", prop, tail(r.wo.stderr, 1500))
				bad++
				continue
			}
			for _, run := range r.wo.runs {
				if i == 0 {
					base[run.Run] = run.HistHash
				} else if h, ok := base[run.Run]; ok && h != run.HistHash {
					fmt.Printf("selftest %s: run %d differs between processes (GOMAXPROCS %d)\n", prop, run.Run, r.gmp)
					bad++
				}
			}
		}
		fmt.Printf("selftest %s: %d runs x %d processes compared\n", prop, len(base), len(rs))
	}
	if bad > 0 {
		return 2
	}
	fmt.Println("selftest: event logs identical across processes and GOMAXPROCS 1/4/16")
	return 0
}
