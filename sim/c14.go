package sim

import (
	"fmt"
	"math"
	"math/rand/v2"
	"strings"

	"github.com/paulsonkoly/chess-3/uci"
)

// c14Case is one clock state the GUI reports.
type c14Case struct {
	White    bool  `json:"white"` // side to move
	Own      int64 `json:"own"`   // remaining ms of the mover
	OwnInc   int64 `json:"own_inc"`
	Opp      int64 `json:"opp"`
	OppInc   int64 `json:"opp_inc"`
	HasInc   bool  `json:"has_inc"`
	MoveTime int64 `json:"movetime"` // >0: go movetime (optionally with clocks too)
	WithClk  bool  `json:"with_clock"`
	Ponder   bool  `json:"ponder"`    // go ponder ... then ponderhit
	HitAfter int64 `json:"hit_after"` // simulated us between go ponder and ponderhit
	// PonderOff: the GUI says `go ponder` although the Ponder option is off; the
	// engine then searches normally and the deadline counts from the go.
	PonderOff bool `json:"ponder_off,omitempty"`
	// Noise: offsets (simulated us after the go, or after the ponderhit) at
	// which the GUI sends an isready while the search is still running.
	Noise []int64 `json:"noise,omitempty"`
	// Real search leg: polls the real search executes before the GUI goes quiet
	// (and, for ponder, before the ponderhit), so that the search is parked
	// somewhere inside its tree when the deadline is computed and when it fires.
	// Extra: further go arguments that must not change the time budget
	// (a depth or node limit the search will not reach before the clock does).
	Extra      string `json:"extra,omitempty"`
	ExtraFirst bool   `json:"extra_first,omitempty"`
	// MovesToGo > 0: the go line also reports `movestogo N`, the third field a
	// GUI sends with a clock. The engine may use it or not; whatever it does,
	// every clause about the deadline holds (and cases are only compared with
	// cases reporting the same value).
	MovesToGo int  `json:"movestogo,omitempty"`
	NumFmt    int  `json:"num_fmt,omitempty"`  // 0 plain, 1 zero padded, 2 explicit plus sign: all decimal
	OmitOpp   bool `json:"omit_opp,omitempty"` // the go line carries only the mover's own clock fields
	RunPolls  int  `json:"run_polls,omitempty"`
	// Lag: the GUI has not yet read this many answers (to isready lines sent
	// just before) when it writes the go, and goes on not reading for LagUS of
	// simulated time; Debug: `debug on` was sent before the go.
	Lag   int   `json:"lag,omitempty"`
	LagUS int64 `json:"lag_us,omitempty"`
	Debug bool  `json:"debug,omitempty"`
	// EOFAfterUS > 0 (last case of a session only): the GUI closes the input
	// this long after the go, without a stop; nothing may keep the search
	// running beyond the deadline then either.
	EOFAfterUS int64  `json:"eof_after_us,omitempty"`
	FEN        string `json:"fen,omitempty"`
}

func (c c14Case) goLine() string {
	var sb strings.Builder
	sb.WriteString("go")
	if c.Ponder {
		sb.WriteString(" ponder")
	}
	if c.MoveTime > 0 {
		if c.NumFmt == 1 {
			fmt.Fprintf(&sb, " movetime %04d", c.MoveTime)
		} else {
			fmt.Fprintf(&sb, " movetime %d", c.MoveTime)
		}
	}
	if c.MoveTime == 0 || c.WithClk {
		w, b, wi, bi := c.Own, c.Opp, c.OwnInc, c.OppInc
		if !c.White {
			w, b, wi, bi = c.Opp, c.Own, c.OppInc, c.OwnInc
		}
		f := "%d"
		switch c.NumFmt {
		case 1:
			f = "%05d" // zero padded
		case 2:
			f = "%+d" // explicit sign
		}
		switch {
		case c.OmitOpp && c.White:
			fmt.Fprintf(&sb, " wtime "+f, w)
			if c.HasInc {
				fmt.Fprintf(&sb, " winc "+f, wi)
			}
		case c.OmitOpp:
			fmt.Fprintf(&sb, " btime "+f, b)
			if c.HasInc {
				fmt.Fprintf(&sb, " binc "+f, bi)
			}
		default:
			fmt.Fprintf(&sb, " wtime "+f+" btime "+f, w, b)
			if c.HasInc {
				fmt.Fprintf(&sb, " winc "+f+" binc "+f, wi, bi)
			}
		}
	}
	if c.MovesToGo > 0 && (c.MoveTime == 0 || c.WithClk) {
		fmt.Fprintf(&sb, " movestogo %d", c.MovesToGo)
	}
	extra := c.Extra
	if n, ok := strings.CutPrefix(extra, "searchmoves@"); ok {
		// a restriction of the root moves (the engine may ignore it): moves legal
		// in the stub leg's fixed roots; dropped in the real-search leg
		mv := []string{"d2d4", "b1c3", "f1c4"}
		if !c.White {
			mv = []string{"b8c6", "g8f6", "d7d6"}
		}
		extra = ""
		if c.FEN == "" {
			extra = "searchmoves " + strings.Join(mv[:int(n[0]-'0')], " ")
		}
	}
	if extra != "" {
		if c.ExtraFirst {
			return "go " + extra + strings.TrimPrefix(sb.String(), "go")
		}
		sb.WriteString(" " + extra)
	}
	return sb.String()
}

const (
	c14WhiteFEN = "r1bqkbnr/pppp1ppp/2n5/4p3/4P3/5N2/PPPP1PPP/RNBQKB1R w KQkq - 2 3"
	c14BlackFEN = "rnbqkbnr/pppp1ppp/8/4p3/4P3/5N2/PPPP1PPP/RNBQKB1R b KQkq - 1 2"
)

func logUniform(rng *rand.Rand, lo, hi float64) int64 {
	x := math.Exp(math.Log(lo) + rng.Float64()*(math.Log(hi)-math.Log(lo)))
	return int64(x)
}

// c14Boundary lists remaining-time values around the margin, its multiples
// and the powers of ten; the margin is read from the engine's exported
// constant only to centre the grid (the oracle never uses a formula).
func c14Boundary() []int64 {
	m := int64(uci.TimeSafetyMargin)
	set := map[int64]bool{}
	for _, c := range []int64{1, m, 2 * m, 3 * m, 4 * m, 30 * m, 100, 1000, 10_000, 60_000, 1_000_000, 1_000_000_000, 1_000_000_000_000} {
		for d := int64(-3); d <= 3; d++ {
			if v := c + d; v >= 1 && v <= 1_000_000_000_000 {
				set[v] = true
			}
		}
	}
	for v := int64(1); v <= 4*m+10; v++ {
		set[v] = true
	}
	var out []int64
	for v := range set {
		out = append(out, v)
	}
	sortInt64(out)
	return out
}

func sortInt64(a []int64) {
	for i := 1; i < len(a); i++ {
		for j := i; j > 0 && a[j] < a[j-1]; j-- {
			a[j], a[j-1] = a[j-1], a[j]
		}
	}
}

// genC14Cases draws the clock states of one session. Cases come in groups
// that share the mover's own clock and differ in colour and in the
// opponent's clock, so that the "depends only on the mover's own clock"
// clause has something to compare.
func genC14Cases(rng *rand.Rand, n int, boundary []int64) []c14Case {
	var out []c14Case
	for len(out) < n {
		var own int64
		switch rng.IntN(3) {
		case 0:
			own = pick(rng, boundary)
		case 1:
			own = logUniform(rng, 1, 1e12)
		default:
			own = 1 + rng.Int64N(200_000)
		}
		var inc int64
		hasInc := rng.IntN(3) != 0
		if hasInc {
			switch rng.IntN(4) {
			case 0:
				inc = 0
			case 1:
				inc = logUniform(rng, 1, 1e9)
			case 2:
				// increment that dominates the remaining time (clamp break-point region)
				inc = own/2 + rng.Int64N(own+1)
				if inc > 1_000_000_000 {
					inc = 1_000_000_000
				}
			default:
				inc = pick(rng, []int64{1, 2, 10, 100, 1000, 2000, 5000, 30_000, 1_000_000_000})
			}
		}
		base := c14Case{Own: own, OwnInc: inc, HasInc: hasInc}
		if rng.IntN(6) == 0 {
			base.MoveTime = pick(rng, []int64{1, 2, 29, 30, 31, 100, 1000, 5000, 3_600_000, logUniform(rng, 1, 1e9)})
			base.WithClk = rng.IntN(2) == 0
		}
		if rng.IntN(5) == 0 {
			base.Ponder = true
			base.HitAfter = pick(rng, []int64{0, 1, 1000, 500_000, 20_000_000, logUniform(rng, 1, 1e10)})
			if rng.IntN(4) == 0 {
				base.PonderOff = true
				base.HitAfter = 1 + rng.Int64N(max(base.Own, base.MoveTime)*1000/2+1)
			}
		}
		if rng.IntN(8) == 0 {
			base.NumFmt = 1 + rng.IntN(2)
		}
		if rng.IntN(5) == 0 {
			base.Extra = pick(rng, []string{"depth 64", "depth 60", "nodes 2000000000", "depth 63 nodes 1000000000", "searchmoves@1", "searchmoves@2", "searchmoves@3"})
			base.ExtraFirst = rng.IntN(2) == 0
		}
		if rng.IntN(5) == 0 {
			base.MovesToGo = pick(rng, []int{1, 1, 1, 2, 3, 10, 29, 30, 31, 40, 100, 1000})
		}
		if rng.IntN(3) == 0 {
			// isready arriving while the search runs must not move the deadline
			lim := max(base.Own, base.MoveTime)
			if base.MoveTime > 0 && !base.WithClk {
				lim = base.MoveTime
			}
			for n, t := 1+rng.IntN(3), int64(0); n > 0; n-- {
				t += 1 + rng.Int64N(lim*1000/2+1)
				base.Noise = append(base.Noise, t)
			}
		}
		k := 2 + rng.IntN(3)
		for i := 0; i < k; i++ {
			c := base
			c.White = rng.IntN(2) == 0
			c.OmitOpp = rng.IntN(7) == 0
			if rng.IntN(6) == 0 {
				// a GUI that is behind with reading when it sends the go
				c.Lag = 1 + rng.IntN(7)
				lim := max(c.Own, c.MoveTime)
				c.LagUS = 1 + rng.Int64N(min(lim*1000, 5_000_000)*2)
			}
			c.Debug = rng.IntN(6) == 0
			if i == 0 {
				c.Opp, c.OppInc = own, inc
			} else {
				c.Opp = logUniform(rng, 1, 1e12)
				c.OppInc = 0
				if hasInc {
					c.OppInc = logUniform(rng, 1, 1e9)
				}
			}
			out = append(out, c)
		}
	}
	return out
}

// C14Scenario wraps a uci scenario with the cases it exercises.
type C14Scenario struct {
	UCI   *UCIScenario `json:"uci"`
	Cases []c14Case    `json:"cases"`
}

// buildC14Scenario turns clock cases into an explicit session with the
// blocking stub search: each go is followed by simulated time passing well
// beyond the reported remaining time, so that the only thing that can end
// the search is the driver's own deadline.
func buildC14Scenario(cases []c14Case, real bool) *C14Scenario {
	sc := &UCIScenario{World: "uci", Stub: !real, AutoGrant: true}
	add := func(op UStep) { sc.Steps = append(sc.Steps, op) }
	add(UStep{Op: "in", Data: "uci\nsetoption name Ponder value true\nisready\n"})
	add(UStep{Op: "drain"})
	for _, c := range cases {
		fen := c14WhiteFEN
		if !c.White {
			fen = c14BlackFEN
		}
		if c.FEN != "" {
			fen = c.FEN
		}
		sc.Stubs = append(sc.Stubs, StubGo{Move: "0000"})
		if c.PonderOff {
			add(UStep{Op: "in", Data: "setoption name Ponder value false\n"})
		}
		lag := c.Lag > 0 && !real
		if lag {
			add(UStep{Op: "auto", N: 0})
			add(UStep{Op: "in", Data: strings.Repeat("isready\n", c.Lag)})
		}
		if c.Debug {
			add(UStep{Op: "in", Data: "debug on\n"})
		}
		add(UStep{Op: "in", Data: "position fen " + fen + "\n"})
		add(UStep{Op: "in", Data: c.goLine() + "\n"})
		if lag {
			// has the driver taken the go line in (it has not if it is itself
			// stuck behind the unread answers)? Only then does the deadline
			// count from this instant.
			add(UStep{Op: "probe"})
			add(UStep{Op: "tick", DUS: c.LagUS})
			add(UStep{Op: "auto", N: 1})
		}
		if real && c.RunPolls > 0 {
			add(UStep{Op: "run", Polls: c.RunPolls})
		}
		if c.Ponder {
			if c.HitAfter > 0 {
				add(UStep{Op: "tick", DUS: c.HitAfter})
			}
			add(UStep{Op: "in", Data: "ponderhit\n"})
		}
		limit := c.Own
		if c.MoveTime > 0 {
			limit = max(limit, c.MoveTime)
			if !c.WithClk {
				limit = c.MoveTime
			}
		}
		total := limit*1000 + 7_000_000
		if c.EOFAfterUS > 0 {
			add(UStep{Op: "tick", DUS: c.EOFAfterUS})
			add(UStep{Op: "eof"})
			add(UStep{Op: "tick", DUS: total})
			add(UStep{Op: "drain"})
			return &C14Scenario{UCI: sc, Cases: cases}
		}
		var at int64
		if lag && !c.Ponder {
			at = c.LagUS
		}
		for _, t := range c.Noise {
			if t <= at || t >= total {
				continue
			}
			add(UStep{Op: "tick", DUS: t - at})
			at = t
			add(UStep{Op: "in", Data: "isready\n"})
			add(UStep{Op: "grant", N: 4})
		}
		if total > at {
			add(UStep{Op: "tick", DUS: total - at})
		}
		add(UStep{Op: "in", Data: "stop\n"}) // harmless if the deadline already ended the search
		add(UStep{Op: "drain"})
		if c.Debug {
			add(UStep{Op: "in", Data: "debug off\n"})
		}
		if c.PonderOff {
			add(UStep{Op: "in", Data: "setoption name Ponder value true\n"})
		}
	}
	add(UStep{Op: "in", Data: "quit\n"})
	return &C14Scenario{UCI: sc, Cases: cases}
}

func (sc *UCIScenario) realLeg() bool { return !sc.Stub }

// c14RealFENs are the roots of the real-search leg, white and black to move.
var c14RealFENs = map[bool][]string{
	true: {
		"r3k2r/2pb1ppp/2pp1q2/p7/1nP1B3/1P2P3/P2N1PPP/R2QK2R w KQkq - 0 14",
		"r1bqk2r/pppp1ppp/5n2/4b3/4P3/P1N5/1PP2PPP/R1BQKB1R w KQkq - 0 5",
		"8/1R6/1p1K1kp1/p6p/P1p2P1P/6P1/1Pn5/8 w - - 0 67",
	},
	false: {
		"4rrk1/2p1b1p1/p1p3q1/4p3/2P2n1p/1P1NR2P/PB3PP1/3R1QK1 b - - 2 24",
		"r1bq1rk1/pp2b1pp/n1pp1n2/3P1p2/2P1p3/2N1P2N/PP2BPPP/R1BQ1RK1 b - - 2 10",
		"8/5k2/1pnrp1p1/p1p4p/P6P/4R1PK/1P3P2/4R3 b - - 1 38",
	},
}

// realiseC14Cases adapts drawn cases to the real-search leg: moderate clock
// values (the search stays parked while simulated time passes, so the values
// cost nothing, but every case needs a real search start), a root per colour
// and a number of polls that leaves the search parked inside its tree.
func realiseC14Cases(rng *rand.Rand, cases []c14Case) []c14Case {
	for i := range cases {
		cases[i].FEN = pick(rng, c14RealFENs[cases[i].White])
		cases[i].RunPolls = 1 + rng.IntN(400)
	}
	return cases
}

// c14Obs is what was observed for one case.
type c14Obs struct {
	Case     c14Case `json:"case"`
	HUS      int64   `json:"h_us"`      // simulated time from go (or ponderhit) to the stop channel closing
	SoftTime int64   `json:"soft_time"` // soft target handed to the search (ms)
	ByTimer  bool    `json:"by_timer"`  // the stop channel closed before the GUI's stop line was written
}

// monitorC14 evaluates the C14 oracle over one finished session.
func monitorC14(cs *C14Scenario, out *UCIOutcome, windows []*goWindow) (vs []Violation, obs []c14Obs) {
	add := func(kind, detail string, step int) {
		vs = append(vs, Violation{Property: "C14", Kind: kind, Detail: detail, Step: step})
	}
	margin := int64(uci.TimeSafetyMargin)
	if margin < 1 {
		add("margin", fmt.Sprintf("the safety margin is %d ms; it must be positive", margin), 0)
	}
	if len(windows) != len(cs.Cases) {
		add("HARNESS", fmt.Sprintf("%d go windows for %d cases", len(windows), len(cs.Cases)), 0)
		vs[len(vs)-1].Property = "HARNESS"
		return vs, nil
	}
	type key struct {
		own, inc, mt int64
		hasInc, clk  bool
		ponder       bool
		mtg          int
	}
	seen := map[key]c14Obs{}
	for i, w := range windows {
		c := cs.Cases[i]
		if w.call == nil {
			add("no-search", fmt.Sprintf("case %+v: the driver did not run a search for %q", c, w.goLine), w.goSeq)
			continue
		}
		if !w.call.Returned {
			add("no-deadline", fmt.Sprintf("case %+v (%q): the search was never stopped (it was still running at the end of the session)", c, w.goLine), w.goSeq)
			continue
		}
		// the instant the GUI's own stop line was written (after the long wait)
		stopT := int64(math.MaxInt64)
		for _, e := range out.Events {
			if e.Kind == "IN" && e.Data == "stop" && e.Seq > w.goSeq {
				stopT = e.T
				break
			}
		}
		if w.call.TStop < 0 {
			add("no-deadline", fmt.Sprintf("case %+v (%q): the search was never stopped", c, w.goLine), w.goSeq)
			continue
		}
		if c.Lag > 0 && !cs.UCI.realLeg() {
			received := false
			for _, e := range out.Events {
				if e.Kind == "PROBE" && e.Seq > w.goSeq && (i+1 >= len(windows) || e.Seq < windows[i+1].goSeq) {
					received = e.N == 1 && e.T == w.goT
				}
			}
			if !received {
				// the driver was itself waiting for the GUI to read when the go was
				// written: the instant it took the go in is not observable
				continue
			}
		}
		ref := w.goT
		if c.Ponder && !c.PonderOff {
			ref = w.hitT
			if ref < 0 {
				// the GUI sends nothing but the ponderhit in this window: if the
				// search was over before it arrived, a deadline must have fired
				// while the engine was still pondering
				add("nonpositive", fmt.Sprintf("case %+v (%q): the search was stopped %d us after go ponder, before the ponderhit arrived", c, w.goLine, w.call.TStop-w.goT), w.goSeq)
				continue
			}
		}
		o := c14Obs{Case: c, HUS: w.call.TStop - ref, SoftTime: w.call.Opts.SoftTime, ByTimer: w.call.TStop < stopT}
		obs = append(obs, o)
		remUS := c.Own * 1000
		desc := fmt.Sprintf("go=%q side=%s own=%dms inc=%dms", w.goLine, map[bool]string{true: "white", false: "black"}[c.White], c.Own, c.OwnInc)
		if c.EOFAfterUS > 0 && o.HUS >= c.EOFAfterUS {
			// stopped because the input ended, not by the deadline: it must still
			// not be later than the clock allows (and it was stopped at all, above)
			lim := remUS
			if c.MoveTime > 0 {
				lim = c.MoveTime * 1000
			}
			if o.HUS > lim {
				add("exceeds-remaining", fmt.Sprintf("%s: the input ended %d us after the go, the search was stopped after %d us, later than the clock allows", desc, c.EOFAfterUS, o.HUS), w.goSeq)
			}
			continue
		}
		if !o.ByTimer {
			add("exceeds-remaining", fmt.Sprintf("%s: no deadline fired within the remaining time plus 7 s; the search only ended on the GUI's stop", desc), w.goSeq)
			continue
		}
		if c.MoveTime > 0 {
			if o.HUS != c.MoveTime*1000 {
				add("movetime-deadline", fmt.Sprintf("%s: hard deadline after %d us, move time is %d ms", desc, o.HUS, c.MoveTime), w.goSeq)
			}
			if o.SoftTime != c.MoveTime {
				add("movetime-soft", fmt.Sprintf("%s: soft target %d ms, move time is %d ms", desc, o.SoftTime, c.MoveTime), w.goSeq)
			}
			continue
		}
		if o.HUS <= 0 {
			add("nonpositive", fmt.Sprintf("%s: hard deadline after %d us (must be positive)", desc, o.HUS), w.goSeq)
		}
		if o.HUS > remUS {
			add("exceeds-remaining", fmt.Sprintf("%s: hard deadline after %d us, later than the remaining %d ms", desc, o.HUS, c.Own), w.goSeq)
		}
		if c.Own > margin && o.HUS > (c.Own-margin)*1000 {
			add("margin", fmt.Sprintf("%s: hard deadline after %d us does not keep the %d ms margin of the remaining %d ms", desc, o.HUS, margin, c.Own), w.goSeq)
		}
		k := key{c.Own, c.OwnInc, c.MoveTime, c.HasInc, c.WithClk, c.Ponder && !c.PonderOff, c.MovesToGo}
		if prev, ok := seen[k]; ok {
			if prev.HUS != o.HUS || prev.SoftTime != o.SoftTime {
				add("not-own-clock", fmt.Sprintf("%s: deadline %d us / soft %d ms, but the same own clock gave %d us / %d ms with side=%v opp=%d oppinc=%d (now side=%v opp=%d oppinc=%d)",
					desc, o.HUS, o.SoftTime, prev.HUS, prev.SoftTime, prev.Case.White, prev.Case.Opp, prev.Case.OppInc, c.White, c.Opp, c.OppInc), w.goSeq)
			}
		} else {
			seen[k] = o
		}
	}
	return vs, obs
}

func c14Margin() int64 { return int64(uci.TimeSafetyMargin) }

// c14Grid enumerates the dense boundary grid of the property's quantifier:
// every boundary value of the remaining time, combined with no increment, a
// zero, a small, a medium and a dominating increment, both colours, and the
// plain / movetime variants. Runs of leg c14-grid walk through it slice by
// slice, so a check covers it completely (the evidence says how often).
func c14Grid() []c14Case {
	var out []c14Case
	for _, own := range c14Boundary() {
		incs := []struct {
			has bool
			inc int64
		}{{false, 0}, {true, 0}, {true, 1}, {true, own/2 + 1}, {true, own}, {true, 2*own + 7}, {true, 1_000_000_000}}
		for _, ic := range incs {
			if ic.inc > 1_000_000_000 {
				continue
			}
			for _, white := range []bool{true, false} {
				out = append(out, c14Case{White: white, Own: own, OwnInc: ic.inc, HasInc: ic.has, Opp: own*3 + 11, OppInc: map[bool]int64{true: 5, false: 0}[ic.has]})
			}
		}
		// the last move before the time control, with and without increment
		out = append(out, c14Case{White: true, Own: own, Opp: own*3 + 11, MovesToGo: 1})
		out = append(out, c14Case{White: false, Own: own, OwnInc: own/2 + 1, HasInc: true, Opp: 13, OppInc: 5, MovesToGo: 1})
		out = append(out, c14Case{White: true, Own: own, MoveTime: own, WithClk: false})
		out = append(out, c14Case{White: false, Own: own, MoveTime: own, WithClk: true, Opp: 7})
	}
	return out
}
