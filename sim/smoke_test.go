package sim

import (
	"testing"
	"testing/synctest"
	"time"
)

func TestSmokeSearchWorld(t *testing.T) {
	sc := &SearchScenario{World: "search", TTBytes: 1 << 20, StartFEN: "r3k2r/2pb1ppp/2pp1q2/p7/1nP1B3/1P2P3/P2N1PPP/R2QK2R w KQkq - 0 14", Style: "carry", Twins: 2, Noise: true}
	for i := 0; i < 6; i++ {
		st := SearchStep{Req: Request{Limits: Limits{Nodes: -1, SoftNodes: 3000}, StopAtPoll: -1, Output: true}, Play: "best", SoftToHard: i%2 == 0,
			Sched: Sched{Quanta: []Quantum{{Polls: 100, CostUS: 50}}}}
		if i == 2 {
			st.Sweep = &Sweep{Kind: "nodes", All: true, Max: 400}
		}
		if i == 3 {
			st.Sweep = &Sweep{Kind: "stop", All: true, Max: 400}
		}
		sc.Steps = append(sc.Steps, st)
	}
	t0 := time.Now()
	var out *SearchOutcome
	synctest.Test(t, func(t *testing.T) {
		out = RunSearchScenario(sc, true, nil)
	})
	t.Logf("wall %v sim %dus stats %v", time.Since(t0), out.SimUS, out.Stats)
	for _, v := range out.Violations {
		t.Errorf("%v", v)
	}
	for _, h := range out.History {
		t.Log(h)
	}
}

func TestSmokeUCIWorld(t *testing.T) {
	for seed := uint64(1); seed <= 6; seed++ {
		rng := newRng(seed)
		cfg := drawUCIGenCfg(rng, seed%2 == 0)
		sc := &UCIScenario{World: "uci", Stub: cfg.Stub}
		var out *UCIOutcome
		t0 := time.Now()
		synctest.Test(t, func(t *testing.T) {
			out = RunUCIScenario(sc, newUCIGen(rng, cfg, sc), true)
		})
		vs, wins := monitorUCI(sc, out)
		t.Logf("seed %d cfg %+v wall %v sim %dus events %d windows %d done %v", seed, cfg, time.Since(t0), out.SimUS, len(out.Events), len(wins), out.Done)
		for _, v := range vs {
			t.Errorf("%v", v)
		}
		if seed <= 2 {
			for _, e := range out.Events {
				d := e.Data
				if len(d) > 100 {
					d = d[:100] + "..."
				}
				t.Logf("%4d %10d %-9s %d %q", e.Seq, e.T, e.Kind, e.N, d)
			}
		}
	}
}

func TestRootsValid(t *testing.T) {
	if err := validateCurated(); err != nil {
		t.Fatal(err)
	}
	rng := newRng(7)
	for _, c := range rootClasses {
		for i := 0; i < 300; i++ {
			r := genRoot(rng, c)
			g := r.Game()
			_ = g
		}
	}
}
