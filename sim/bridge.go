package sim

import (
	"fmt"

	"github.com/paulsonkoly/chess-3/board"
	"github.com/paulsonkoly/chess-3/chess"
	"github.com/paulsonkoly/chess-3/move"

	"verif/sim/ref"
)

// toEngineMove builds the engine's encoding of a reference-model move the
// same way the UCI layer does: from, to and promotion piece.
func toEngineMove(m ref.Move) move.Move {
	return move.From(chess.Square(m.From)) | move.To(chess.Square(m.To)) | move.Promo(chess.Piece(m.Promo))
}

// fromEngineMove goes through the UCI text of the engine move, which is the
// observable the properties speak about.
func fromEngineMove(m move.Move) (ref.Move, error) {
	return ref.ParseMove(m.String())
}

// engineBoard sets up the engine's board for a reference game: the start
// position through FEN, then every move of the history through MakeMove
// (what both the UCI position command and datagen do).
func engineBoard(g *ref.Game) (*board.Board, error) {
	var b *board.Board
	if fen := g.Start.FEN(); fen == ref.StartFEN {
		// what `position startpos` does
		b = board.StartPos()
	} else {
		var err error
		b, err = board.FromFEN(fen)
		if err != nil {
			return nil, fmt.Errorf("engine rejects FEN %q: %v", fen, err)
		}
	}
	for _, m := range g.Moves {
		b.MakeMove(toEngineMove(m))
	}
	return b, nil
}

// snapshotsEqual compares two deep board snapshots and names the first
// differing attribute.
func snapshotsEqual(a, b board.VerifSnapshot) (bool, string) {
	switch {
	case a.SquaresToPiece != b.SquaresToPiece:
		return false, "per-square piece map"
	case a.Pieces != b.Pieces:
		return false, "per-piece sets"
	case a.Colors != b.Colors:
		return false, "per-colour sets"
	case a.STM != b.STM:
		return false, "side to move"
	case a.EnPassant != b.EnPassant:
		return false, "en-passant target"
	case a.Castles != b.Castles:
		return false, "castling rights"
	case a.FiftyCnt != b.FiftyCnt:
		return false, "halfmove clock"
	case a.FullMoves != b.FullMoves:
		return false, "fullmove number"
	case len(a.Hashes) != len(b.Hashes):
		return false, fmt.Sprintf("hash history length %d -> %d", len(a.Hashes), len(b.Hashes))
	}
	for i := range a.Hashes {
		if a.Hashes[i] != b.Hashes[i] {
			return false, fmt.Sprintf("hash history entry %d", i)
		}
	}
	return true, ""
}
