package sim

import (
	"encoding/json"
	"fmt"
	"os"
	"path/filepath"
	"strings"

	"verif/sim/ref"
)

// KnownFinding is one entry of /verif/known_findings.json.
type KnownFinding struct {
	ID        string `json:"id"`
	Property  string `json:"property"`
	Status    string `json:"status"` // open | fixed
	Commit    string `json:"commit,omitempty"`
	What      string `json:"what"`
	Canonical string `json:"canonical,omitempty"` // replay file, relative to /verif
	Match     struct {
		Kind      string `json:"kind"`
		Predicate string `json:"predicate"`
	} `json:"match"`
}

// KnownFindings is the committed list; never written at run time.
type KnownFindings struct {
	Findings []KnownFinding `json:"findings"`
	Log      []string       `json:"log,omitempty"`
}

func loadKnownFindings(path string) (*KnownFindings, error) {
	kf := &KnownFindings{}
	b, err := os.ReadFile(path)
	if os.IsNotExist(err) {
		return kf, nil
	}
	if err != nil {
		return nil, err
	}
	if err := json.Unmarshal(b, kf); err != nil {
		return nil, err
	}
	for _, f := range kf.Findings {
		if _, ok := findingPredicates[f.Match.Predicate]; !ok {
			return nil, fmt.Errorf("finding %s: unknown predicate %q", f.ID, f.Match.Predicate)
		}
	}
	return kf, nil
}

func (f *KnownFinding) matches(rc *RunCase, v Violation) bool {
	if v.Kind != f.Match.Kind || v.Property != f.Property {
		return false
	}
	return findingPredicates[f.Match.Predicate](rc, v)
}

func (kf *KnownFindings) match(prop string, rc *RunCase, v Violation) *KnownFinding {
	for i := range kf.Findings {
		if kf.Findings[i].Property == prop && kf.Findings[i].matches(rc, v) {
			return &kf.Findings[i]
		}
	}
	return nil
}

func ctxGame(v Violation) *ref.Game {
	if v.Ctx == nil {
		return nil
	}
	p, err := ref.ParseFEN(v.Ctx.StartFEN)
	if err != nil {
		return nil
	}
	g := ref.NewGame(p)
	for _, ms := range v.Ctx.Moves {
		m, err := ref.ParseMove(ms)
		if err != nil || !g.Cur().IsLegal(m) {
			return nil
		}
		g.Push(m)
	}
	return g
}

// findingPredicates decide structurally (never by seed) whether a violation
// is the recorded one.
var findingPredicates = map[string]func(*RunCase, Violation) bool{
	// a completed search on a root that is a third occurrence only when the
	// start position - loaded from a FEN whose en-passant target cannot be
	// captured - is counted
	"ep-flag-start-fen": func(rc *RunCase, v Violation) bool {
		g := ctxGame(v)
		if g == nil {
			return false
		}
		if g.Start.EP < 0 || g.Start.EPCapturable() {
			return false
		}
		rs := g.FinalReasons()
		if len(rs) != 1 || rs[0] != "threefold" {
			return false
		}
		if g.Start.Key() != g.Cur().Key() {
			return false
		}
		// without the start position it would not be a third occurrence
		return g.Occurrences() == 3
	},
	// a root whose halfmove clock has passed 127
	"halfmove-clock-wrap": func(rc *RunCase, v Violation) bool {
		g := ctxGame(v)
		return g != nil && g.Cur().Half >= 128
	},
	// go depth N with N outside 1..127
	"uci-depth-wrap": func(rc *RunCase, v Violation) bool {
		if rc == nil || rc.UCI == nil {
			return false
		}
		for _, st := range rc.UCI.Steps {
			if st.Op == "in" && strings.Contains(st.Data, "depth") {
				f := strings.Fields(st.Data)
				for i := 0; i+1 < len(f); i++ {
					if f[i] == "depth" && (len(f[i+1]) > 3 || f[i+1] > "127" && len(f[i+1]) == 3) {
						return true
					}
				}
			}
		}
		return false
	},
	"never": func(*RunCase, Violation) bool { return false },
}

// writeEvidence writes /verif/evidence/<id>.json.
func (d *driver) writeEvidence(prop, tier string, master uint64, agg *WorkerSummary, distinct, violations int, wall float64, known map[string]bool) error {
	faults, probes, other := map[string]int64{}, map[string]int64{}, map[string]int64{}
	for k, v := range agg.Stats {
		switch {
		case strings.HasPrefix(k, "fault_"):
			faults[strings.TrimPrefix(k, "fault_")] = v
		case strings.HasPrefix(k, "probe_"):
			probes[strings.TrimPrefix(k, "probe_")] = v
		default:
			other[k] = v
		}
	}
	var samples []any
	for _, s := range agg.Samples {
		var x any
		if json.Unmarshal(s, &x) == nil {
			samples = append(samples, x)
		}
	}
	if len(samples) == 0 {
		samples = append(samples, map[string]any{"note": "no sample small enough to inline; see rule"})
	}
	real, stub := componentsFor(prop)
	var kn []string
	for k := range known {
		kn = append(kn, k)
	}
	ev := map[string]any{
		"property_id": prop,
		"tier":        tier,
		"seed":        int64(master & 0x7fffffffffffffff),
		"level":       "exploration",
		"wall_s":      wall,
		"violations":  violations,
		"coverage": map[string]any{
			"evaluations":               agg.Runs,
			"distinct_nontrivial":       distinct,
			"rule":                      ruleFor(prop, tier),
			"samples":                   samples,
			"runs_per_hour":             float64(agg.Runs) / wall * 3600,
			"seeds":                     agg.Seeds,
			"master_seed":               master,
			"simulated_seconds_covered": agg.SimS,
			"fault_counts":              faults,
			"probes":                    probes,
			"counters":                  other,
			"distinct_interleavings":    agg.AllSigs,
			"abort_points_swept":        agg.Stats["abort_points_swept"],
			"searches_run":              agg.Stats["searches"],
			"components_real":           real,
			"components_stub":           stub,
			"worker_count":              d.workers,
			"gomaxprocs_used":           map[bool][]int{false: {1, 4, 16}, true: {1}}[d.forceGMP1],
			"runs_by_leg":               agg.LegRuns,
			"inconclusive_runs":         agg.Inconclusive,
			"known_findings_reproduced": kn,
			"spsa_build_workers":        d.spsaWorkers,
			"determinism_precheck":      "first 5 seeds run twice in separate processes (GOMAXPROCS 1 and 16), history hashes equal",
			"c14_lagging_gui_cases":     map[bool]string{false: "on", true: "left out: not reproducible with this tree"}[d.noLag],
			"writer_mode":               map[bool]string{false: "gated (every Write parks until the scheduler grants it)", true: "non-blocking: the code under test holds a lock while writing, output back-pressure not simulated"}[d.noBlockWriter],
			"race_leg_auxiliary":        d.raceStats,
			"boundary_grid":             map[string]any{"slices_total": d.gridTotal, "slices_covered": len(d.gridSeen), "cases_per_slice": 30, "note": "C14 only: the dense boundary grid of the quantifier, walked slice by slice by leg c14-grid"},
			"exhaustive":                false,
		},
		"assumptions": []string{
			"the reference chess model in /verif/sim/ref (validated against published perft counts at the start of every check)",
			"Go's testing/synctest runtime (fake clock, quiescence detection)",
			"the serialising scheduler produces every observable ordering of the driver's goroutines except a simultaneous select race, which is equivalent to one of two orderings it does produce (DESIGN.md 5.4)",
		},
	}
	dir := filepath.Join(d.verifDir, "evidence")
	if e := os.Getenv("VERIF_EVIDENCE_DIR"); e != "" {
		dir = e
	}
	os.MkdirAll(dir, 0o755)
	b, err := json.MarshalIndent(ev, "", " ")
	if err != nil {
		return err
	}
	return os.WriteFile(filepath.Join(dir, prop+".json"), b, 0o644)
}

func componentsFor(prop string) (real, stub []string) {
	switch prop {
	case "C06", "C07":
		return []string{"search.Search (Go, abort, iterative deepening, quiescence)", "board.Board make/undo", "transp.Table", "heur tables", "uci.Driver (UCI leg: reader, handler, writer, interrupt goroutine, time.Timer)"},
			[]string{"stdin/stdout (simulated reader/writer)", "wall clock (synctest fake clock)", "GUI (scenario generator with reference chess model)"}
	case "C08":
		return []string{"search.Search on 2-4 independent instances", "board.Board", "transp.Table", "heur tables"}, []string{"wall clock (synctest fake clock)", "goroutine scheduling (cooperative hand-off at abort polls)"}
	case "C13":
		return []string{"uci.Driver.Run with all four goroutine kinds", "bufio.Scanner", "output sink with pooled buffers", "time.Timer hard deadline", "search.Search (legs uci-real, uci-sweep)"},
			[]string{"search (leg uci-stub: blocking stub behind the uci.Search seam)", "stdin/stdout", "wall clock", "GUI"}
	case "C14":
		return []string{"uci.Driver go parsing, time control, interrupt goroutine, time.Timer, ponderhit hand-over"}, []string{"search (blocking stub that records SoftTime and the instant stop closes)", "stdin/stdout", "wall clock (fake)"}
	}
	return nil, nil
}

func ruleFor(prop, tier string) string {
	switch prop {
	case "C06":
		return "Each run is one seeded scenario: a root with history from the generators of DESIGN.md section 3 (bench set, curated final/near-final roots, shuffles to 2nd/3rd occurrence, fifty-move boundary, random endgames, playouts), a table size, 1-4 searches with drawn limit combinations, and per search a complete or sampled sweep of abort instants (hard budget k for every k, or stop closing at poll j for every j) executed on clones of the engine state; 30% of runs go through the real uci.Driver with numeric go arguments up to beyond 64 bits. A case is non-trivial when an abort actually fired inside the search or a soft limit ended it; distinct = distinct (root+history, request incl. abort instant, table size) hashes" + sampleNote(tier)
	case "C07":
		return "Same worlds as C06 with Output always recorded and table sizes >= 1000 buckets: every reported line of every search (sweep clones included) is replayed in the reference model. Non-trivial/distinct as for C06" + sampleNote(tier)
	case "C08":
		return "Each run is a game of 3-11 (thorough: occasionally 270) searches on a primary engine and 1-2 persistent twin engines created independently and fed the same requests; twins run interleaved quantum by quantum with each other and a noise engine under different simulated clock speeds; soft limits of the primary are translated to the hard budget N it used. Non-trivial = search ended by a soft limit or a hard budget; distinct = distinct (root+history, request, table size) hashes" + sampleNote(tier)
	case "C13":
		return "Each run is one seeded UCI session against the real driver (stub or real search): the generator emits only protocol-conforming lines and chooses, at every quiescent point, which party proceeds (deliver input possibly fragmented, grant a pending write, let the parked search run q polls at a simulated cost, let simulated time pass) or injects stop/isready/ponderhit/quit/EOF; leg uci-sweep places one command exactly at poll j of every search for j swept over runs. A run is non-trivial when at least one such command or EOF landed between the start and the return of a search; distinct = distinct hashes of the event sequence projected to (kind, keyword, search phase, writer state)"
	case "C14":
		return "Each run is one session with the blocking stub search: 24 (thorough 60) clock states drawn from the boundary grid (every remaining time 1..4*margin+10, +-3 around multiples of the margin and powers of ten up to 10^12) and log-uniform values, in groups sharing the mover's clock and differing in colour and opponent clock, with and without increment, movetime and ponder/ponderhit; simulated time then passes beyond the remaining time and the instant the stop channel closes is read from the fake clock. distinct = distinct (own remaining, own increment, movetime, increment present, ponder) tuples"
	}
	return ""
}

func sampleNote(tier string) string {
	if tier == "thorough" {
		return " (thorough tier: only hashes divisible by 8 are recorded, so the count is a lower bound)"
	}
	return ""
}
