package ref

import "testing"

func TestPerft(t *testing.T) {
	if err := SelfTest(false); err != nil {
		t.Fatal(err)
	}
}

func TestFENRoundTrip(t *testing.T) {
	for _, c := range PerftSuite {
		p := MustFEN(c.FEN)
		if p.FEN() != c.FEN {
			t.Fatalf("%q -> %q", c.FEN, p.FEN())
		}
	}
}

func TestRepetition(t *testing.T) {
	g := NewGame(MustFEN(StartFEN))
	for i := 0; i < 2; i++ {
		for _, s := range []string{"g1f3", "g8f6", "f3g1", "f6g8"} {
			m, _ := ParseMove(s)
			if !g.Cur().IsLegal(m) {
				t.Fatal("illegal", s)
			}
			g.Push(m)
		}
	}
	if g.Occurrences() != 3 || g.FinalReason() != "threefold" {
		t.Fatal(g.Occurrences(), g.FinalReason())
	}
}
