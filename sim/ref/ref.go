// Package ref is a deliberately naive chess rules implementation used as the
// oracle of the simulation harness. It shares no code with the engine under
// test: 8x8 mailbox, ray walking, legality by make-and-test.
package ref

import (
	"errors"
	"fmt"
	"strconv"
	"strings"
)

// Piece kinds. Positive = white, negative = black, 0 = empty.
const (
	Empty  = 0
	Pawn   = 1
	Knight = 2
	Bishop = 3
	Rook   = 4
	Queen  = 5
	King   = 6
)

// Castling right indices.
const (
	WK = iota
	WQ
	BK
	BQ
)

// Pos is a chess position. Squares are rank*8+file, a1 = 0, h8 = 63.
type Pos struct {
	Sq     [64]int8
	White  bool // side to move
	Castle [4]bool
	EP     int // en-passant target square or -1
	Half   int
	Full   int
}

// Move is a chess move. Promo is 0 or Knight..Queen. Castling is the king
// moving two files.
type Move struct {
	From, To int
	Promo    int8
}

// Null reports whether m is the null move (all zero).
func (m Move) Null() bool { return m.From == 0 && m.To == 0 && m.Promo == 0 }

func sqName(s int) string { return string([]byte{byte('a' + s%8), byte('1' + s/8)}) }

// String is the UCI text of m ("0000" for the null move).
func (m Move) String() string {
	if m.Null() {
		return "0000"
	}
	s := sqName(m.From) + sqName(m.To)
	if m.Promo != 0 {
		s += string(" pnbrqk"[m.Promo])
	}
	return s
}

// ParseMove parses UCI move text syntactically (no legality).
func ParseMove(s string) (Move, error) {
	if s == "0000" {
		return Move{}, nil
	}
	if len(s) != 4 && len(s) != 5 {
		return Move{}, fmt.Errorf("bad move text %q", s)
	}
	for i := 0; i < 4; i += 2 {
		if s[i] < 'a' || s[i] > 'h' || s[i+1] < '1' || s[i+1] > '8' {
			return Move{}, fmt.Errorf("bad move text %q", s)
		}
	}
	m := Move{From: int(s[0]-'a') + 8*int(s[1]-'1'), To: int(s[2]-'a') + 8*int(s[3]-'1')}
	if len(s) == 5 {
		switch s[4] {
		case 'n':
			m.Promo = Knight
		case 'b':
			m.Promo = Bishop
		case 'r':
			m.Promo = Rook
		case 'q':
			m.Promo = Queen
		default:
			return Move{}, fmt.Errorf("bad move text %q", s)
		}
	}
	return m, nil
}

// StartFEN is the initial position.
const StartFEN = "rnbqkbnr/pppppppp/8/8/8/8/PPPPPPPP/RNBQKBNR w KQkq - 0 1"

// ParseFEN parses a six-field FEN. It does not judge validity; see Valid.
func ParseFEN(fen string) (Pos, error) {
	var p Pos
	p.EP = -1
	f := strings.Fields(fen)
	if len(f) != 6 {
		return p, fmt.Errorf("fen needs 6 fields, has %d", len(f))
	}
	ranks := strings.Split(f[0], "/")
	if len(ranks) != 8 {
		return p, errors.New("fen needs 8 ranks")
	}
	for i, r := range ranks {
		rank := 7 - i
		file := 0
		for _, c := range r {
			switch {
			case c >= '1' && c <= '8':
				file += int(c - '0')
			default:
				k := strings.IndexRune("PNBRQK", c)
				sign := int8(1)
				if k < 0 {
					k = strings.IndexRune("pnbrqk", c)
					sign = -1
				}
				if k < 0 || file > 7 {
					return p, fmt.Errorf("bad placement %q", r)
				}
				p.Sq[rank*8+file] = sign * int8(k+1)
				file++
			}
		}
		if file != 8 {
			return p, fmt.Errorf("bad rank %q", r)
		}
	}
	switch f[1] {
	case "w":
		p.White = true
	case "b":
		p.White = false
	default:
		return p, errors.New("bad side")
	}
	if f[2] != "-" {
		for _, c := range f[2] {
			k := strings.IndexRune("KQkq", c)
			if k < 0 {
				return p, errors.New("bad castling")
			}
			p.Castle[k] = true
		}
	}
	if f[3] != "-" {
		if len(f[3]) != 2 || f[3][0] < 'a' || f[3][0] > 'h' || f[3][1] < '1' || f[3][1] > '8' {
			return p, errors.New("bad ep")
		}
		p.EP = int(f[3][0]-'a') + 8*int(f[3][1]-'1')
	}
	var err error
	if p.Half, err = strconv.Atoi(f[4]); err != nil || p.Half < 0 {
		return p, errors.New("bad halfmove clock")
	}
	if p.Full, err = strconv.Atoi(f[5]); err != nil || p.Full < 1 {
		return p, errors.New("bad fullmove number")
	}
	return p, nil
}

// MustFEN parses a FEN known to be good.
func MustFEN(fen string) Pos {
	p, err := ParseFEN(fen)
	if err != nil {
		panic(fmt.Sprintf("ref.MustFEN(%q): %v", fen, err))
	}
	return p
}

// FEN prints p.
func (p *Pos) FEN() string {
	var sb strings.Builder
	for rank := 7; rank >= 0; rank-- {
		empty := 0
		for file := 0; file < 8; file++ {
			v := p.Sq[rank*8+file]
			if v == 0 {
				empty++
				continue
			}
			if empty > 0 {
				sb.WriteByte(byte('0' + empty))
				empty = 0
			}
			if v > 0 {
				sb.WriteByte(" PNBRQK"[v])
			} else {
				sb.WriteByte(" pnbrqk"[-v])
			}
		}
		if empty > 0 {
			sb.WriteByte(byte('0' + empty))
		}
		if rank > 0 {
			sb.WriteByte('/')
		}
	}
	if p.White {
		sb.WriteString(" w ")
	} else {
		sb.WriteString(" b ")
	}
	any := false
	for i, c := range "KQkq" {
		if p.Castle[i] {
			sb.WriteRune(c)
			any = true
		}
	}
	if !any {
		sb.WriteByte('-')
	}
	sb.WriteByte(' ')
	if p.EP < 0 {
		sb.WriteByte('-')
	} else {
		sb.WriteString(sqName(p.EP))
	}
	fmt.Fprintf(&sb, " %d %d", p.Half, p.Full)
	return sb.String()
}

func sign(white bool) int8 {
	if white {
		return 1
	}
	return -1
}

var knightD = [8][2]int{{1, 2}, {2, 1}, {2, -1}, {1, -2}, {-1, -2}, {-2, -1}, {-2, 1}, {-1, 2}}
var kingD = [8][2]int{{1, 0}, {1, 1}, {0, 1}, {-1, 1}, {-1, 0}, {-1, -1}, {0, -1}, {1, -1}}
var bishopD = [4][2]int{{1, 1}, {-1, 1}, {-1, -1}, {1, -1}}
var rookD = [4][2]int{{1, 0}, {0, 1}, {-1, 0}, {0, -1}}

func on(f, r int) bool { return f >= 0 && f < 8 && r >= 0 && r < 8 }

// Attacked reports whether square s is attacked by the given colour.
func (p *Pos) Attacked(s int, byWhite bool) bool {
	sg := sign(byWhite)
	f, r := s%8, s/8
	// pawns: a white pawn on (f±1, r-1) attacks (f, r)
	pr := r - 1
	if !byWhite {
		pr = r + 1
	}
	for _, df := range []int{-1, 1} {
		if on(f+df, pr) && p.Sq[pr*8+f+df] == sg*Pawn {
			return true
		}
	}
	for _, d := range knightD {
		if on(f+d[0], r+d[1]) && p.Sq[(r+d[1])*8+f+d[0]] == sg*Knight {
			return true
		}
	}
	for _, d := range kingD {
		if on(f+d[0], r+d[1]) && p.Sq[(r+d[1])*8+f+d[0]] == sg*King {
			return true
		}
	}
	for _, d := range bishopD {
		for x, y := f+d[0], r+d[1]; on(x, y); x, y = x+d[0], y+d[1] {
			v := p.Sq[y*8+x]
			if v != 0 {
				if v == sg*Bishop || v == sg*Queen {
					return true
				}
				break
			}
		}
	}
	for _, d := range rookD {
		for x, y := f+d[0], r+d[1]; on(x, y); x, y = x+d[0], y+d[1] {
			v := p.Sq[y*8+x]
			if v != 0 {
				if v == sg*Rook || v == sg*Queen {
					return true
				}
				break
			}
		}
	}
	return false
}

// KingSq returns the square of the given side's king, or -1.
func (p *Pos) KingSq(white bool) int {
	k := sign(white) * King
	for s, v := range p.Sq {
		if v == k {
			return s
		}
	}
	return -1
}

// InCheck reports whether the given side's king is attacked.
func (p *Pos) InCheck(white bool) bool {
	k := p.KingSq(white)
	return k >= 0 && p.Attacked(k, !white)
}

// Pseudo generates the pseudo-legal moves of the side to move.
func (p *Pos) Pseudo() []Move {
	var out []Move
	sg := sign(p.White)
	for s, v := range p.Sq {
		if v == 0 || (v > 0) != p.White {
			continue
		}
		f, r := s%8, s/8
		kind := v * sg
		switch kind {
		case Pawn:
			dir, start, last := 1, 1, 7
			if !p.White {
				dir, start, last = -1, 6, 0
			}
			add := func(to int) {
				if to/8 == last {
					for _, pr := range []int8{Queen, Rook, Bishop, Knight} {
						out = append(out, Move{s, to, pr})
					}
				} else {
					out = append(out, Move{s, to, 0})
				}
			}
			if on(f, r+dir) && p.Sq[(r+dir)*8+f] == 0 {
				add((r+dir)*8 + f)
				if r == start && p.Sq[(r+2*dir)*8+f] == 0 {
					out = append(out, Move{s, (r+2*dir)*8 + f, 0})
				}
			}
			for _, df := range []int{-1, 1} {
				if !on(f+df, r+dir) {
					continue
				}
				to := (r+dir)*8 + f + df
				t := p.Sq[to]
				if t != 0 && (t > 0) != p.White {
					add(to)
				} else if t == 0 && to == p.EP && p.epVictimOK() {
					out = append(out, Move{s, to, 0})
				}
			}
		case Knight:
			for _, d := range knightD {
				if on(f+d[0], r+d[1]) {
					to := (r+d[1])*8 + f + d[0]
					if t := p.Sq[to]; t == 0 || (t > 0) != p.White {
						out = append(out, Move{s, to, 0})
					}
				}
			}
		case King:
			for _, d := range kingD {
				if on(f+d[0], r+d[1]) {
					to := (r+d[1])*8 + f + d[0]
					if t := p.Sq[to]; t == 0 || (t > 0) != p.White {
						out = append(out, Move{s, to, 0})
					}
				}
			}
			home, ks, qs := 4, WK, WQ
			if !p.White {
				home, ks, qs = 60, BK, BQ
			}
			if s == home && !p.Attacked(home, !p.White) {
				if p.Castle[ks] && p.Sq[home+3] == sg*Rook && p.Sq[home+1] == 0 && p.Sq[home+2] == 0 &&
					!p.Attacked(home+1, !p.White) && !p.Attacked(home+2, !p.White) {
					out = append(out, Move{home, home + 2, 0})
				}
				if p.Castle[qs] && p.Sq[home-4] == sg*Rook && p.Sq[home-1] == 0 && p.Sq[home-2] == 0 && p.Sq[home-3] == 0 &&
					!p.Attacked(home-1, !p.White) && !p.Attacked(home-2, !p.White) {
					out = append(out, Move{home, home - 2, 0})
				}
			}
		default:
			var dirs [][2]int
			if kind == Bishop || kind == Queen {
				dirs = append(dirs, bishopD[:]...)
			}
			if kind == Rook || kind == Queen {
				dirs = append(dirs, rookD[:]...)
			}
			for _, d := range dirs {
				for x, y := f+d[0], r+d[1]; on(x, y); x, y = x+d[0], y+d[1] {
					to := y*8 + x
					t := p.Sq[to]
					if t == 0 {
						out = append(out, Move{s, to, 0})
						continue
					}
					if (t > 0) != p.White {
						out = append(out, Move{s, to, 0})
					}
					break
				}
			}
		}
	}
	return out
}

// epVictimOK checks that the en-passant target is geometrically meaningful:
// on the right rank with an enemy pawn directly in front of it.
func (p *Pos) epVictimOK() bool {
	if p.EP < 0 {
		return false
	}
	r := p.EP / 8
	if p.White {
		return r == 5 && p.Sq[p.EP-8] == -Pawn
	}
	return r == 2 && p.Sq[p.EP+8] == Pawn
}

// Play returns the position after m, which must be pseudo-legal.
func (p *Pos) Play(m Move) Pos {
	n := *p
	sg := sign(p.White)
	v := p.Sq[m.From]
	kind := v * sg
	capture := p.Sq[m.To] != 0
	n.Sq[m.From] = 0
	if kind == Pawn && m.To == p.EP && p.Sq[m.To] == 0 && m.From%8 != m.To%8 {
		// en passant
		if p.White {
			n.Sq[m.To-8] = 0
		} else {
			n.Sq[m.To+8] = 0
		}
		capture = true
	}
	if m.Promo != 0 {
		n.Sq[m.To] = sg * m.Promo
	} else {
		n.Sq[m.To] = v
	}
	if kind == King && (m.To-m.From == 2 || m.From-m.To == 2) {
		if m.To > m.From {
			n.Sq[m.From+3] = 0
			n.Sq[m.From+1] = sg * Rook
		} else {
			n.Sq[m.From-4] = 0
			n.Sq[m.From-1] = sg * Rook
		}
	}
	// castling rights
	touch := func(s int) {
		switch s {
		case 4:
			n.Castle[WK], n.Castle[WQ] = false, false
		case 60:
			n.Castle[BK], n.Castle[BQ] = false, false
		case 0:
			n.Castle[WQ] = false
		case 7:
			n.Castle[WK] = false
		case 56:
			n.Castle[BQ] = false
		case 63:
			n.Castle[BK] = false
		}
	}
	touch(m.From)
	touch(m.To)
	n.EP = -1
	if kind == Pawn && (m.To-m.From == 16 || m.From-m.To == 16) {
		n.EP = (m.From + m.To) / 2
	}
	if kind == Pawn || capture {
		n.Half = 0
	} else {
		n.Half = p.Half + 1
	}
	if !p.White {
		n.Full = p.Full + 1
	}
	n.White = !p.White
	return n
}

// Legal generates the legal moves of the side to move.
func (p *Pos) Legal() []Move {
	var out []Move
	for _, m := range p.Pseudo() {
		n := p.Play(m)
		if !n.InCheck(p.White) {
			out = append(out, m)
		}
	}
	return out
}

// IsLegal reports whether m is a legal move in p.
func (p *Pos) IsLegal(m Move) bool {
	for _, l := range p.Legal() {
		if l == m {
			return true
		}
	}
	return false
}

// EPCapturable reports whether a legal en-passant capture exists.
func (p *Pos) EPCapturable() bool {
	if p.EP < 0 {
		return false
	}
	sg := sign(p.White)
	for _, m := range p.Legal() {
		if m.To == p.EP && p.Sq[m.From] == sg*Pawn && m.From%8 != m.To%8 {
			return true
		}
	}
	return false
}

// Key is the identity of the position for counting occurrences: placement,
// side to move, castling rights, and the en-passant square only when a legal
// en-passant capture exists.
func (p *Pos) Key() string {
	var b [70]byte
	for i, v := range p.Sq {
		b[i] = byte(v + 8)
	}
	if p.White {
		b[64] = 1
	}
	for i, c := range p.Castle {
		if c {
			b[65+i] = 1
		}
	}
	b[69] = 255
	if p.EPCapturable() {
		b[69] = byte(p.EP)
	}
	return string(b[:])
}

// Checkmate reports whether the side to move is checkmated.
func (p *Pos) Checkmate() bool { return p.InCheck(p.White) && len(p.Legal()) == 0 }

// Stalemate reports whether the side to move is stalemated.
func (p *Pos) Stalemate() bool { return !p.InCheck(p.White) && len(p.Legal()) == 0 }

// Valid checks the validity clause the properties quantify over: exactly one
// king per side, no pawns on ranks 1/8, piece counts reachable by promotion,
// side not to move not in check, castling rights only with king and rook at
// home, en-passant target only directly behind a pawn that could just have
// double-pushed.
func (p *Pos) Valid() error {
	var cnt [2][7]int
	for s, v := range p.Sq {
		if v == 0 {
			continue
		}
		c, k := 0, v
		if v < 0 {
			c, k = 1, -v
		}
		cnt[c][k]++
		if k == Pawn && (s/8 == 0 || s/8 == 7) {
			return errors.New("pawn on back rank")
		}
	}
	for c := 0; c < 2; c++ {
		if cnt[c][King] != 1 {
			return errors.New("king count")
		}
		extra := max(0, cnt[c][Knight]-2) + max(0, cnt[c][Bishop]-2) + max(0, cnt[c][Rook]-2) + max(0, cnt[c][Queen]-1)
		if cnt[c][Pawn]+extra > 8 {
			return errors.New("piece counts not reachable")
		}
	}
	if p.InCheck(!p.White) {
		return errors.New("side not to move is in check")
	}
	if (p.Castle[WK] || p.Castle[WQ]) && p.Sq[4] != King {
		return errors.New("white castling right without king at home")
	}
	if (p.Castle[BK] || p.Castle[BQ]) && p.Sq[60] != -King {
		return errors.New("black castling right without king at home")
	}
	if p.Castle[WK] && p.Sq[7] != Rook || p.Castle[WQ] && p.Sq[0] != Rook ||
		p.Castle[BK] && p.Sq[63] != -Rook || p.Castle[BQ] && p.Sq[56] != -Rook {
		return errors.New("castling right without rook at home")
	}
	if p.EP >= 0 {
		if !p.epVictimOK() {
			return errors.New("en-passant target not behind an enemy pawn")
		}
		// the pawn must have been able to double-push: origin and target empty
		org := p.EP + 8
		if !p.White {
			org = p.EP - 8
		}
		if p.Sq[p.EP] != 0 || p.Sq[org] != 0 {
			return errors.New("en-passant target or origin occupied")
		}
	}
	return nil
}

// Game is a start position plus the moves played from it.
type Game struct {
	Start Pos
	Moves []Move
	pos   []Pos    // pos[i] = position after i moves
	keys  []string // keys[i] = pos[i].Key(), computed once
}

// NewGame starts a game from p.
func NewGame(p Pos) *Game { return &Game{Start: p, pos: []Pos{p}, keys: []string{p.Key()}} }

// Cur is the current position.
func (g *Game) Cur() *Pos { return &g.pos[len(g.pos)-1] }

// Push plays m (must be legal).
func (g *Game) Push(m Move) {
	n := g.Cur().Play(m)
	g.Moves = append(g.Moves, m)
	g.pos = append(g.pos, n)
	g.keys = append(g.keys, n.Key())
}

// Pop takes back the last move.
func (g *Game) Pop() {
	g.Moves = g.Moves[:len(g.Moves)-1]
	g.pos = g.pos[:len(g.pos)-1]
	g.keys = g.keys[:len(g.keys)-1]
}

// Clone copies the game.
func (g *Game) Clone() *Game {
	return &Game{Start: g.Start, Moves: append([]Move(nil), g.Moves...), pos: append([]Pos(nil), g.pos...), keys: append([]string(nil), g.keys...)}
}

// Occurrences counts how often the current position has occurred in the game
// including now.
func (g *Game) Occurrences() int {
	k := g.keys[len(g.keys)-1]
	n := 0
	for i := range g.keys {
		if g.keys[i] == k {
			n++
		}
	}
	return n
}

// FinalReason classifies why the current position is final ("" if not).
func (g *Game) FinalReason() string {
	c := g.Cur()
	if len(c.Legal()) == 0 {
		if c.InCheck(c.White) {
			return "checkmate"
		}
		return "stalemate"
	}
	if c.Half >= 100 {
		return "fifty"
	}
	if g.Occurrences() >= 3 {
		return "threefold"
	}
	return ""
}

// FinalReasons lists every reason that applies.
func (g *Game) FinalReasons() []string {
	var out []string
	c := g.Cur()
	if len(c.Legal()) == 0 {
		if c.InCheck(c.White) {
			out = append(out, "checkmate")
		} else {
			out = append(out, "stalemate")
		}
	}
	if c.Half >= 100 {
		out = append(out, "fifty")
	}
	if g.Occurrences() >= 3 {
		out = append(out, "threefold")
	}
	return out
}

// Perft counts leaf nodes to depth d.
func (p *Pos) Perft(d int) int {
	if d == 0 {
		return 1
	}
	n := 0
	for _, m := range p.Legal() {
		c := p.Play(m)
		n += c.Perft(d - 1)
	}
	return n
}

// PerftCase is a published perft count.
type PerftCase struct {
	FEN   string
	Depth int
	Nodes int
}

// PerftSuite holds published perft numbers (chessprogramming.org "Perft
// Results") used to validate this model before every check.
var PerftSuite = []PerftCase{
	{StartFEN, 4, 197281},
	{"r3k2r/p1ppqpb1/bn2pnp1/3PN3/1p2P3/2N2Q1p/PPPBBPPP/R3K2R w KQkq - 0 1", 3, 97862},
	{"8/2p5/3p4/KP5r/1R3p1k/8/4P1P1/8 w - - 0 1", 4, 43238},
	{"r3k2r/Pppp1ppp/1b3nbN/nP6/BBP1P3/q4N2/Pp1P2PP/R2Q1RK1 w kq - 0 1", 3, 9467},
	{"rnbq1k1r/pp1Pbppp/2p5/8/2B5/8/PPP1NnPP/RNBQK2R w KQ - 1 8", 3, 62379},
	{"r4rk1/1pp1qppp/p1np1n2/2b1p1B1/2B1P1b1/P1NP1N2/1PP1QPPP/R4RK1 w - - 0 10", 3, 89890},
}

// SelfTest runs the perft suite; quick limits the depth by one.
func SelfTest(quick bool) error {
	for _, c := range PerftSuite {
		p, err := ParseFEN(c.FEN)
		if err != nil {
			return err
		}
		if err := p.Valid(); err != nil {
			return fmt.Errorf("perft fen %q invalid: %v", c.FEN, err)
		}
		if got := p.Perft(c.Depth); got != c.Nodes {
			return fmt.Errorf("reference model perft(%d) of %q = %d, published %d", c.Depth, c.FEN, got, c.Nodes)
		}
	}
	return nil
}
