package sim

import (
	"encoding/json"
	"fmt"
	"os"
	"path/filepath"
	"regexp"
	"strconv"
	"strings"
	"sync"
	"time"

	"verif/sim/ref"
)

func cloneCase(rc *RunCase) *RunCase {
	b, _ := json.Marshal(rc)
	c := &RunCase{}
	json.Unmarshal(b, c)
	return c
}

type minimiser struct {
	d        *driver
	prop     string
	kind     string
	kf       *KnownFindings
	deadline time.Time
	tries    int
}

// fails replays rc in a fresh process and reports whether the same class of
// violation (same property and kind, not explained by a recorded finding)
// occurs, returning it and the history of the run.
func (m *minimiser) fails(rc *RunCase) (bool, Violation, []string) {
	m.d.mu.Lock()
	m.d.seq++
	id := m.d.seq
	m.tries++
	m.d.mu.Unlock()
	p := filepath.Join(m.d.tmp, fmt.Sprintf("cand%d.json", id))
	b, _ := json.Marshal(&ReplayFile{Property: m.prop, Case: rc})
	os.WriteFile(p, b, 0o644)
	defer os.Remove(p)
	wo := m.d.spawn(Job{Property: m.prop, Replay: p}, 0)
	if wo.summary == nil {
		if blame, what := crashBlame(wo.stderr); blame && (m.kind == "panic" || m.kind == "fatal") {
			return true, Violation{Property: m.prop, Kind: m.kind, Detail: "driver process died: " + what}, nil
		}
		return false, Violation{}, nil
	}
	for _, rr := range wo.runs {
		for _, v := range rr.Violations {
			if v.Property == m.prop && v.Kind == m.kind {
				if k := m.kf.match(m.prop, rc, v); k != nil && k.Status == "open" {
					continue
				}
				return true, v, rr.History
			}
		}
	}
	return false, Violation{}, nil
}

// firstFailing evaluates candidates concurrently and returns the first (in
// list order) that still fails.
func (m *minimiser) firstFailing(cands []*RunCase) (*RunCase, Violation) {
	if len(cands) == 0 || time.Now().After(m.deadline) {
		return nil, Violation{}
	}
	type r struct {
		ok bool
		v  Violation
	}
	res := make([]r, len(cands))
	sem := make(chan struct{}, 8)
	var wg sync.WaitGroup
	for i := range cands {
		wg.Add(1)
		go func(i int) {
			defer wg.Done()
			sem <- struct{}{}
			defer func() { <-sem }()
			if time.Now().After(m.deadline) {
				return
			}
			ok, v, _ := m.fails(cands[i])
			res[i] = r{ok, v}
		}(i)
	}
	wg.Wait()
	for i := range cands {
		if res[i].ok {
			return cands[i], res[i].v
		}
	}
	return nil, Violation{}
}

var sweepRe = regexp.MustCompile(`\[sweep (nodes|stop)=(\d+)\]`)

// minimise shrinks rf.Case while the same violation kind persists.
func (d *driver) minimise(rf *ReplayFile, kf *KnownFindings) {
	limit := 90 * time.Second
	if v, err := strconv.Atoi(os.Getenv("VERIF_MINIMISE_S")); err == nil {
		limit = time.Duration(v) * time.Second
	}
	m := &minimiser{d: d, prop: rf.Property, kind: rf.Violation.Kind, kf: kf, deadline: time.Now().Add(limit)}
	cur := cloneCase(rf.Case)
	cur.UCICfg = nil
	ok, v, hist := m.fails(cur)
	if !ok {
		rf.Note = "the violation did not reproduce when replayed from the recorded scenario; reported unminimised"
		return
	}
	best, bestV := cur, v
	accept := func(c *RunCase, v Violation) { best, bestV = c, v }

	switch {
	case best.Search != nil:
		// 1. make the continuation explicit
		if c := concretise(best, hist); c != nil {
			if ok, v, _ := m.fails(c); ok {
				accept(c, v)
			}
		}
		for round := 0; round < 6 && time.Now().Before(m.deadline); round++ {
			changed := false
			try := func(mut func(c *RunCase) bool) {
				c := cloneCase(best)
				if !mut(c) {
					return
				}
				if got, v := m.firstFailing([]*RunCase{c}); got != nil {
					accept(got, v)
					changed = true
				}
			}
			// cut everything after the step the violation was seen at
			try(func(c *RunCase) bool {
				if bestV.Step+1 >= len(c.Search.Steps) {
					return false
				}
				c.Search.Steps = c.Search.Steps[:bestV.Step+1]
				return true
			})
			// a sweep becomes its single failing point
			try(func(c *RunCase) bool {
				mm := sweepRe.FindStringSubmatch(bestV.Detail)
				if mm == nil || bestV.Step >= len(c.Search.Steps) {
					return false
				}
				st := &c.Search.Steps[bestV.Step]
				if st.Sweep == nil || (!st.Sweep.All && len(st.Sweep.Points) == 1) {
					return false
				}
				k, _ := strconv.Atoi(mm[2])
				st.Sweep = &Sweep{Kind: mm[1], Points: []int{k}}
				return true
			})
			// other steps lose their sweeps
			try(func(c *RunCase) bool {
				any := false
				for i := range c.Search.Steps {
					if i != bestV.Step && c.Search.Steps[i].Sweep != nil {
						c.Search.Steps[i].Sweep = nil
						any = true
					}
				}
				return any
			})
			// fold searched plies into the history: the move stays, the search goes
			for i := 0; i < len(best.Search.Steps)-1 && time.Now().Before(m.deadline); i++ {
				i := i
				try(func(c *RunCase) bool {
					if i >= len(c.Search.Steps)-1 || bestV.Step == i {
						return false
					}
					st := c.Search.Steps[i]
					if st.Play == "best" {
						return false
					}
					if st.Play != "" {
						// only a leading step can be folded into the prefix
						if i != 0 {
							return false
						}
						c.Search.Prefix = append(c.Search.Prefix, st.Play)
					}
					c.Search.Steps = append(c.Search.Steps[:i:i], c.Search.Steps[i+1:]...)
					return true
				})
			}
			if rf.Property != "C08" {
				try(func(c *RunCase) bool {
					if c.Search.Twins == 0 && !c.Search.Noise {
						return false
					}
					c.Search.Twins, c.Search.Noise = 0, false
					return true
				})
			} else {
				try(func(c *RunCase) bool {
					if !c.Search.Noise {
						return false
					}
					c.Search.Noise = false
					return true
				})
				try(func(c *RunCase) bool {
					if c.Search.Twins <= 1 {
						return false
					}
					c.Search.Twins = 1
					return true
				})
			}
			try(func(c *RunCase) bool {
				any := false
				for i := range c.Search.Steps {
					st := &c.Search.Steps[i]
					if len(st.Sched.Quanta) > 0 || len(st.TwinSched) > 0 || st.Research || st.Clear || st.Resize != 0 {
						if st.Req.SoftTime > 0 {
							continue // needs its clock
						}
						st.Sched, st.TwinSched, st.Research, st.Clear, st.Resize = Sched{}, nil, false, false, 0
						any = true
					}
				}
				return any
			})
			try(func(c *RunCase) bool {
				if len(c.Search.Spsa) == 0 {
					return false
				}
				c.Search.Spsa = nil
				return true
			})
			try(func(c *RunCase) bool {
				if c.Search.TTBytes == 1<<20 {
					return false
				}
				c.Search.TTBytes = 1 << 20
				return true
			})
			// the history becomes a plain FEN
			try(func(c *RunCase) bool {
				if len(c.Search.Prefix) == 0 {
					return false
				}
				g := Root{FEN: c.Search.StartFEN, Moves: c.Search.Prefix}.Game()
				c.Search.StartFEN, c.Search.Prefix = g.Cur().FEN(), nil
				return true
			})
			// shorten the history from the front, one full move at a time
			try(func(c *RunCase) bool {
				if len(c.Search.Prefix) < 2 {
					return false
				}
				p, err := ref.ParseFEN(c.Search.StartFEN)
				if err != nil {
					return false
				}
				g := ref.NewGame(p)
				for _, ms := range c.Search.Prefix[:2] {
					mv, err := ref.ParseMove(ms)
					if err != nil || !g.Cur().IsLegal(mv) {
						return false
					}
					g.Push(mv)
				}
				c.Search.StartFEN, c.Search.Prefix = g.Cur().FEN(), c.Search.Prefix[2:]
				return true
			})
			if !changed {
				break
			}
		}
	case best.C14 != nil:
		best, bestV = ddmin(m, best, bestV, func(c *RunCase) int { return len(c.C14) }, func(c *RunCase, lo, hi int) {
			c.C14 = append(c.C14[:lo:lo], c.C14[hi:]...)
		})
	case best.UCI != nil:
		best, bestV = ddmin(m, best, bestV, func(c *RunCase) int { return len(c.UCI.Steps) }, func(c *RunCase, lo, hi int) {
			c.UCI.Steps = append(c.UCI.Steps[:lo:lo], c.UCI.Steps[hi:]...)
		})
		// smaller numbers
		for i := 0; i < len(best.UCI.Steps) && time.Now().Before(m.deadline); i++ {
			st := best.UCI.Steps[i]
			var alts []UStep
			switch st.Op {
			case "run":
				if st.CostUS > 0 {
					a := st
					a.CostUS = 0
					alts = append(alts, a)
				}
				if st.Polls > 1 {
					a := st
					a.Polls, a.CostUS = 1, 0
					alts = append(alts, a)
				}
			case "tick":
				if st.DUS > 1000 {
					a := st
					a.DUS = 1000
					alts = append(alts, a)
				}
			}
			var cands []*RunCase
			for _, a := range alts {
				c := cloneCase(best)
				c.UCI.Steps[i] = a
				cands = append(cands, c)
			}
			if got, v := m.firstFailing(cands); got != nil {
				best, bestV = got, v
			}
		}
	}
	rf.Case = best
	rf.Violation = bestV
	rf.Minimised = true
	rf.Note = fmt.Sprintf("minimised with %d replays in fresh processes", m.tries)
}

// ddmin is delta debugging over a list held inside the case.
func ddmin(m *minimiser, best *RunCase, bestV Violation, length func(*RunCase) int, remove func(c *RunCase, lo, hi int)) (*RunCase, Violation) {
	chunk := length(best) / 2
	for chunk >= 1 && time.Now().Before(m.deadline) {
		n := length(best)
		var cands []*RunCase
		for lo := 0; lo < n; lo += chunk {
			hi := min(n, lo+chunk)
			c := cloneCase(best)
			remove(c, lo, hi)
			cands = append(cands, c)
		}
		if got, v := m.firstFailing(cands); got != nil {
			best, bestV = got, v
			if chunk > length(best) {
				chunk = length(best)
			}
			continue
		}
		chunk /= 2
	}
	return best, bestV
}

// concretise replaces "best" continuations by the moves that were actually
// played (read from the history of a run), so that steps can be dropped
// independently.
func concretise(rc *RunCase, hist []string) *RunCase {
	c := cloneCase(rc)
	played := map[int]string{}
	for _, h := range hist {
		f := strings.Fields(h)
		if len(f) == 3 && f[1] == "PLAY" {
			if i, err := strconv.Atoi(f[0]); err == nil {
				played[i] = f[2]
			}
		}
	}
	any := false
	for i := range c.Search.Steps {
		if c.Search.Steps[i].Play == "best" {
			mv, ok := played[i]
			if !ok {
				// the game ended here: nothing after this step ran
				c.Search.Steps = c.Search.Steps[:i+1]
				c.Search.Steps[i].Play = ""
				any = true
				break
			}
			c.Search.Steps[i].Play = mv
			any = true
		}
	}
	if !any {
		return nil
	}
	return c
}
