package sim

import (
	"fmt"
	"math/rand/v2"

	"verif/sim/ref"
)

// Root is a start position plus a history of moves: the root of a search.
type Root struct {
	FEN   string   `json:"fen"`
	Moves []string `json:"moves,omitempty"`
	Tag   string   `json:"tag"`
}

// Game builds the reference game of a root (panics on an invalid root: the
// generators only produce validated ones).
func (r Root) Game() *ref.Game {
	g := ref.NewGame(ref.MustFEN(r.FEN))
	for _, ms := range r.Moves {
		m, err := ref.ParseMove(ms)
		if err != nil || !g.Cur().IsLegal(m) {
			panic(fmt.Sprintf("root %s: move %s not legal", r.FEN, ms))
		}
		g.Push(m)
	}
	return g
}

// curatedRoots are the special positions named in DESIGN.md appendix D.
var curatedRoots = []Root{
	{FEN: "kbK5/pP6/p7/8/8/8/8/8 b - - 0 1", Tag: "mated"},
	{FEN: "rnb1kbnr/pppp1ppp/8/4p3/6Pq/5P2/PPPPP2P/RNBQKBNR w KQkq - 1 3", Tag: "mated"},
	{FEN: "8/8/8/8/8/3q1k2/8/4K3 w - - 0 1", Tag: "stalemate"},
	{FEN: "8/8/4k3/8/8/4K3/8/8 w - - 100 1", Tag: "clock100"},
	{FEN: "8/8/4k3/8/8/4K3/8/8 w - - 99 1", Tag: "clock99"},
	{FEN: "8/8/4k3/8/8/4K3/8/8 w - - 98 1", Tag: "clock98"},
	{FEN: "8/5k2/8/8/8/3R4/8/4K3 w - - 99 70", Tag: "clock99"},
	{FEN: "6k1/5ppp/8/8/8/8/8/R3K3 w Q - 99 40", Tag: "clock99-mate-in-1"},
	{FEN: "8/P7/8/8/8/8/7k/K7 w - - 0 1", Tag: "promotion"},
	{FEN: "8/5P1k/8/8/8/8/p7/7K w - - 0 1", Tag: "promotion"},
	{FEN: "r3k2r/8/8/8/8/8/8/R3K2R w KQkq - 0 1", Tag: "castling"},
	{FEN: "r3k2r/pppppppp/8/8/8/8/PPPPPPPP/R3K2R b KQkq - 0 1", Tag: "castling"},
	{FEN: "rnbqkbnr/pppppppp/8/8/4P3/8/PPPP1PPP/RNBQKBNR b KQkq e3 0 1", Tag: "ep-uncapturable"},
	{FEN: "rnbqkbnr/ppp1pppp/8/8/3pP3/8/PPPP1PPP/RNBQKBNR b KQkq e3 0 3", Tag: "ep-capturable"},
	{FEN: "rnbqkbnr/pp1ppppp/8/8/2pPP3/8/PPP2PPP/RNBQKBNR b KQkq d3 0 3", Tag: "ep-capturable"},
	{FEN: "8/8/8/8/k2Pp2Q/8/8/3K4 b - d3 0 1", Tag: "ep-pinned"},
	{FEN: "6k1/5ppp/8/8/8/8/5PPP/R5K1 w - - 0 1", Tag: "mate-in-1"},
	{FEN: "7k/8/5K2/6Q1/8/8/8/8 w - - 0 1", Tag: "mate-in-1"},
	{FEN: "k7/8/1K6/8/8/8/8/7R w - - 0 1", Tag: "mate-in-1"},
	{FEN: "4k3/8/8/8/8/8/4q3/4K3 w - - 0 1", Tag: "single-reply"},
	{FEN: "7k/5Q2/8/8/8/8/8/K7 b - - 0 1", Tag: "single-reply"},
	{FEN: "rnbq1bnr/pppp1ppp/8/4p3/4P1k1/5N2/PPPP1PPP/RNBQKB1R b KQ - 0 1", Tag: "in-check"},
	{FEN: "4k3/8/4r3/8/8/4b3/8/R3K2R w KQ - 0 1", Tag: "in-check"},
	{FEN: "4k3/3N4/8/8/8/8/4R3/4K3 b - - 0 1", Tag: "double-check"},
	{FEN: "QQQQQQQQ/Q6k/8/8/8/8/8/K7 b - - 0 1", Tag: "promoted-material"},
	{FEN: "k7/8/8/8/8/8/8/K6N w - - 0 1", Tag: "insufficient"},
	{FEN: "8/8/8/8/8/5k2/6p1/6K1 w - - 0 1", Tag: "near-stalemate"},
	{FEN: "5k2/8/5K2/8/8/8/8/6R1 b - - 0 1", Tag: "near-mate"},
	{FEN: "8/8/8/8/8/1k6/p7/K7 w - - 0 1", Tag: "stalemate"},
	{FEN: "1k6/8/8/8/8/8/7r/K5r1 w - - 0 1", Tag: "mated"},
	{FEN: "R6R/3Q4/1Q4Q1/4Q3/2Q4Q/Q4Q2/pp1Q4/kBNN1KB1 w - - 0 1", Tag: "218-moves"},
	{FEN: "Kbnn1kb1/PP1q4/q4q2/2q4q/4q3/1q4q1/3q4/r6r b - - 0 1", Tag: "218-moves-black"},
	// material far beyond anything a game reaches: the static evaluation alone is mate-sized
	{FEN: "R6R/3Q4/3Q4/4Q3/2Q1Q2Q/4QQ2/qp1Q4/1kNN1KB1 b - - 3 4", Tag: "heavy-single-reply"},
	{FEN: "QQQQQQ1k/QQQ5/8/8/8/8/7p/K7 b - - 0 1", Tag: "heavy-nine-queens-down"},
	{FEN: "qqqqqq1K/qqq5/8/8/8/8/7P/k7 w - - 0 1", Tag: "heavy-nine-queens-down-white"},
	{FEN: "8/5P1k/5K2/8/8/8/8/8 w - - 0 1", Tag: "underpromotion"},
	{FEN: "8/8/8/8/8/5k2/6p1/6K1 b - - 0 1", Tag: "blocked-passer"},
	{FEN: "k7/2K5/8/8/8/8/8/1R6 w - - 0 1", Tag: "mate-in-1-single-plan"},
	{FEN: "8/8/8/8/8/4k3/3p4/3K4 w - - 0 1", Tag: "single-reply"},
	{FEN: "4k3/8/8/8/8/8/3PPP2/3QKB2 w - - 0 1", Tag: "few-moves"},
	// long castling with the b-file square attacked is legal (only the king's path matters)
	{FEN: "r3k2r/8/8/8/4b3/8/8/R3K2R w KQkq - 0 1", Moves: []string{"e1c1"}, Tag: "castle-long-b1-attacked"},
	{FEN: "r3k2r/8/8/8/8/4B3/8/R3K2R b KQkq - 0 1", Moves: []string{"e8c8"}, Tag: "castle-long-b8-attacked"},
	{FEN: "r3k2r/8/8/8/8/8/1r6/R3K2R w KQkq - 0 1", Moves: []string{"e1c1", "b2b1"}, Tag: "castle-long-b1-attacked"},
	{FEN: "r3k2r/pppppppp/8/8/8/8/PPPPPPPP/R3K2R w KQkq - 0 1", Moves: []string{"e1g1", "e8c8"}, Tag: "castled"},
}

// tinyTreeFENs: bare kings, locked pawns.
var tinyTreeFENs = []string{
	"4k3/8/2K5/8/8/8/8/8 w - - 0 1",
	"8/8/8/8/8/k7/8/K7 w - - 0 1",
	"k7/8/8/p1p1p1p1/P1P1P1P1/8/8/K7 w - - 0 1",
	"k7/8/8/p1p1p1p1/P1P1P1P1/8/8/K7 b - - 0 1",
	"7k/8/8/p7/P7/8/8/K7 w - - 0 1",
}

// validateCurated checks every curated root against the reference model.
func validateCurated() error {
	for _, r := range curatedRoots {
		p, err := ref.ParseFEN(r.FEN)
		if err != nil {
			return fmt.Errorf("curated root %q: %v", r.FEN, err)
		}
		if err := p.Valid(); err != nil {
			return fmt.Errorf("curated root %q: %v", r.FEN, err)
		}
		g := ref.NewGame(p)
		for _, ms := range r.Moves {
			m, err := ref.ParseMove(ms)
			if err != nil || !g.Cur().IsLegal(m) {
				return fmt.Errorf("curated root %q: move %s is not legal", r.FEN, ms)
			}
			g.Push(m)
		}
	}
	for _, f := range append(append([]string(nil), benchFENs...), tinyTreeFENs...) {
		p, err := ref.ParseFEN(f)
		if err != nil {
			return fmt.Errorf("bench root %q: %v", f, err)
		}
		if err := p.Valid(); err != nil {
			return fmt.Errorf("bench root %q: %v", f, err)
		}
	}
	return nil
}

func pick[T any](rng *rand.Rand, xs []T) T { return xs[rng.IntN(len(xs))] }

// reversible reports whether m is a non-capturing, non-pawn, non-castling move
// in p (so that it can be taken back by the inverse move later).
func reversible(p *ref.Pos, m ref.Move) bool {
	v := p.Sq[m.From]
	if v < 0 {
		v = -v
	}
	if v == ref.Pawn || p.Sq[m.To] != 0 || m.Promo != 0 {
		return false
	}
	if v == ref.King && (m.To-m.From == 2 || m.From-m.To == 2) {
		return false
	}
	return true
}

// playout extends g by up to n plies with the given policy; it stops early at
// a position without legal moves.
func playout(rng *rand.Rand, g *ref.Game, n int, policy string) {
	for i := 0; i < n; i++ {
		legal := g.Cur().Legal()
		if len(legal) == 0 {
			return
		}
		var cand []ref.Move
		switch policy {
		case "captures":
			for _, m := range legal {
				if g.Cur().Sq[m.To] != 0 || m.Promo != 0 {
					cand = append(cand, m)
				}
			}
		case "reversible":
			for _, m := range legal {
				if reversible(g.Cur(), m) {
					cand = append(cand, m)
				}
			}
		case "pawns":
			for _, m := range legal {
				if v := g.Cur().Sq[m.From]; v == ref.Pawn || v == -ref.Pawn {
					cand = append(cand, m)
				}
			}
		}
		if len(cand) == 0 || rng.IntN(4) == 0 {
			cand = legal
		}
		g.Push(pick(rng, cand))
	}
}

// shuffle appends cycles of "A out, B out, A back, B back" to g so that the
// current position recurs. Returns the number of plies appended.
func shuffle(rng *rand.Rand, g *ref.Game, plies int) int {
	cur := g.Cur()
	var a1s []ref.Move
	for _, m := range cur.Legal() {
		if reversible(cur, m) {
			a1s = append(a1s, m)
		}
	}
	rng.Shuffle(len(a1s), func(i, j int) { a1s[i], a1s[j] = a1s[j], a1s[i] })
	for _, a1 := range a1s {
		p1 := cur.Play(a1)
		var b1s []ref.Move
		for _, m := range p1.Legal() {
			if reversible(&p1, m) {
				b1s = append(b1s, m)
			}
		}
		rng.Shuffle(len(b1s), func(i, j int) { b1s[i], b1s[j] = b1s[j], b1s[i] })
		for _, b1 := range b1s {
			p2 := p1.Play(b1)
			a2 := ref.Move{From: a1.To, To: a1.From}
			if !p2.IsLegal(a2) {
				continue
			}
			p3 := p2.Play(a2)
			b2 := ref.Move{From: b1.To, To: b1.From}
			if !p3.IsLegal(b2) {
				continue
			}
			cyc := []ref.Move{a1, b1, a2, b2}
			for i := 0; i < plies; i++ {
				g.Push(cyc[i%4])
			}
			return plies
		}
	}
	return 0
}

// triangle appends cycles of six plies in which one piece of each side walks
// a -> b -> c -> a, so that positions recur with a period that is not a
// multiple of four. Returns the number of plies appended.
func triangle(rng *rand.Rand, g *ref.Game, plies int) int {
	find := func(p *ref.Pos) [][3]ref.Move {
		var out [][3]ref.Move
		for _, m1 := range p.Legal() {
			if !reversible(p, m1) {
				continue
			}
			// the other side passes by a null-like probe: evaluate the mover's
			// geometry only; legality is re-checked when the cycle is assembled
			q := *p
			q.Sq[m1.To], q.Sq[m1.From] = q.Sq[m1.From], 0
			for _, m2 := range pseudoFrom(&q, m1.To, p.White) {
				if m2.To == m1.From || q.Sq[m2.To] != 0 {
					continue
				}
				r := q
				r.Sq[m2.To], r.Sq[m2.From] = r.Sq[m2.From], 0
				for _, m3 := range pseudoFrom(&r, m2.To, p.White) {
					if m3.To == m1.From && r.Sq[m3.To] == 0 {
						out = append(out, [3]ref.Move{m1, m2, m3})
					}
				}
			}
		}
		return out
	}
	cur := g.Cur()
	as := find(cur)
	rng.Shuffle(len(as), func(i, j int) { as[i], as[j] = as[j], as[i] })
	for _, a := range as[:min(len(as), 12)] {
		p1 := cur.Play(a[0])
		bs := find(&p1)
		rng.Shuffle(len(bs), func(i, j int) { bs[i], bs[j] = bs[j], bs[i] })
		for _, b := range bs[:min(len(bs), 12)] {
			cyc := []ref.Move{a[0], b[0], a[1], b[1], a[2], b[2]}
			t := g.Clone()
			ok := true
			for _, m := range cyc {
				if !t.Cur().IsLegal(m) || !reversible(t.Cur(), m) {
					ok = false
					break
				}
				t.Push(m)
			}
			if !ok || t.Cur().Key() != cur.Key() {
				continue
			}
			for i := 0; i < plies; i++ {
				g.Push(cyc[i%6])
			}
			return plies
		}
	}
	return 0
}

// pseudoFrom lists the pseudo-legal moves of the piece on square from for the
// given side (reference model geometry).
func pseudoFrom(p *ref.Pos, from int, white bool) []ref.Move {
	q := *p
	q.White = white
	var out []ref.Move
	for _, m := range q.Pseudo() {
		if m.From == from {
			out = append(out, m)
		}
	}
	return out
}

// randomEndgame places a few pieces at random until the reference model
// accepts the position.
func randomEndgame(rng *rand.Rand) Root {
	kinds := []int8{ref.Pawn, ref.Pawn, ref.Pawn, ref.Knight, ref.Bishop, ref.Rook, ref.Queen}
	for {
		var p ref.Pos
		p.EP = -1
		p.Full = 1 + rng.IntN(80)
		p.White = rng.IntN(2) == 0
		sqs := rng.Perm(64)
		p.Sq[sqs[0]] = ref.King
		p.Sq[sqs[1]] = -ref.King
		n := rng.IntN(5)
		for i := 0; i < n; i++ {
			k := pick(rng, kinds)
			if rng.IntN(2) == 0 {
				k = -k
			}
			p.Sq[sqs[2+i]] = k
		}
		if rng.IntN(6) == 0 {
			p.Half = 90 + rng.IntN(11)
		} else {
			p.Half = rng.IntN(30)
		}
		if p.Valid() != nil {
			continue
		}
		return Root{FEN: p.FEN(), Tag: "endgame"}
	}
}

// RootClass names of genRoot.
var rootClasses = []string{"bench", "bench-play", "start-play", "curated", "curated-play", "shuffle2", "shuffle3", "shuffle-ep", "fifty", "fifty-long", "endgame", "captures", "promo-race", "triangle", "tiny-tree", "ep-push"}

// genRoot draws a root of the given class ("" = weighted random class). Every
// root is validated by the reference model; an invalid one is a harness bug.
func genRoot(rng *rand.Rand, class string) Root {
	r := genRootUnchecked(rng, class)
	p, err := ref.ParseFEN(r.FEN)
	if err == nil {
		err = p.Valid()
	}
	if err != nil {
		panic(fmt.Sprintf("harness bug: generated root %q (%s) is not a valid position: %v", r.FEN, r.Tag, err))
	}
	return r
}

func genRootUnchecked(rng *rand.Rand, class string) Root {
	if class == "" {
		weights := []int{12, 12, 12, 10, 8, 6, 6, 3, 5, 1, 12, 5, 4, 5, 3, 5}
		t := 0
		for _, w := range weights {
			t += w
		}
		x := rng.IntN(t)
		for i, w := range weights {
			if x < w {
				class = rootClasses[i]
				break
			}
			x -= w
		}
	}
	mk := func(fen string, g *ref.Game, tag string) Root {
		r := Root{FEN: fen, Tag: tag}
		for _, m := range g.Moves {
			r.Moves = append(r.Moves, m.String())
		}
		return r
	}
	switch class {
	case "bench":
		return Root{FEN: pick(rng, benchFENs), Tag: class}
	case "bench-play":
		fen := pick(rng, benchFENs)
		g := ref.NewGame(ref.MustFEN(fen))
		playout(rng, g, 1+rng.IntN(8), pick(rng, []string{"", "captures", "reversible"}))
		return mk(fen, g, class)
	case "start-play":
		g := ref.NewGame(ref.MustFEN(ref.StartFEN))
		playout(rng, g, rng.IntN(40), pick(rng, []string{"", "", "captures", "pawns"}))
		return mk(ref.StartFEN, g, class)
	case "curated":
		return pick(rng, curatedRoots)
	case "curated-play":
		c := pick(rng, curatedRoots)
		g := c.Game()
		playout(rng, g, 1+rng.IntN(4), "")
		return mk(c.FEN, g, class+":"+c.Tag)
	case "shuffle2", "shuffle3", "shuffle-ep":
		var fen string
		switch {
		case class == "shuffle-ep":
			fen = pick(rng, []string{
				"rnbqkbnr/pppppppp/8/8/4P3/8/PPPP1PPP/RNBQKBNR b KQkq e3 0 1",
				"rnbqkbnr/pppp1ppp/8/4p3/4P3/8/PPPP1PPP/RNBQKBNR w KQkq e6 0 2",
				"r3k2r/2pb1ppp/2pp1q2/p7/1nP1B3/1P2P3/P2N1PPP/R2QK2R w KQkq a6 0 14",
				"rnbqkb1r/pppppppp/5n2/8/2PP4/8/PP2PPPP/RNBQKBNR b KQkq c3 0 2",
				"4k3/8/8/8/4P3/8/8/R3K2R b KQ e3 0 1",
			})
		case rng.IntN(2) == 0:
			fen = pick(rng, benchFENs)
		default:
			fen = ref.StartFEN
		}
		g := ref.NewGame(ref.MustFEN(fen))
		if class != "shuffle-ep" {
			playout(rng, g, rng.IntN(6), "")
		}
		n := 4 // second occurrence
		if class != "shuffle2" {
			n = 8 // third occurrence
		}
		switch rng.IntN(8) {
		case 0:
			n-- // one ply short
		case 1:
			n++ // one ply past
		case 2:
			n += 4 // a cycle past
		}
		shuffle(rng, g, n)
		return mk(fen, g, class)
	case "fifty", "fifty-long":
		base := pick(rng, []string{
			"8/8/4k3/8/8/4K3/8/R7 w - - %d 60",
			"8/5k2/8/2n5/8/3R4/8/4K3 w - - %d 70",
			"r3k3/8/8/8/8/8/8/4K2R b - - %d 50",
			"8/8/3bk3/8/8/3BK3/8/8 w - - %d 90",
			"6k1/5ppp/8/8/8/8/5PPP/R5K1 w - - %d 30",
		})
		clock := 92 + rng.IntN(9)
		plies := rng.IntN(10)
		if class == "fifty-long" {
			clock = 100
			plies = 24 + rng.IntN(12)
		}
		fen := fmt.Sprintf(base, clock)
		g := ref.NewGame(ref.MustFEN(fen))
		playout(rng, g, plies, "reversible")
		return mk(fen, g, class)
	case "triangle":
		// recurrences with period six (second or third occurrence, or one ply off)
		var fen string
		if rng.IntN(2) == 0 {
			fen = pick(rng, benchFENs)
		} else {
			fen = pick(rng, []string{"r6k/8/8/8/8/8/8/R6K w - - 0 1", "4k3/8/8/3q4/8/8/3Q4/4K3 w - - 0 1", ref.StartFEN, "r3k2r/8/8/8/8/8/8/R3K2R w KQkq - 0 1"})
		}
		g := ref.NewGame(ref.MustFEN(fen))
		playout(rng, g, rng.IntN(4), "")
		n := pick(rng, []int{6, 12, 12, 12, 11, 13, 18})
		if triangle(rng, g, n) == 0 {
			shuffle(rng, g, 8)
		}
		return mk(fen, g, class)
	case "ep-push":
		// a double push played in the game next to an enemy pawn, in sparse
		// positions with sliders about (so that the capture is often illegal
		// because of a pin or a discovered check), followed by a shuffle: is the
		// position after the push the same position as its later recurrences?
		for try := 0; try < 1500; try++ {
			var p ref.Pos
			p.EP, p.Full, p.White = -1, 1+rng.IntN(60), rng.IntN(2) == 0
			sqs := rng.Perm(64)
			p.Sq[sqs[0]], p.Sq[sqs[1]] = ref.King, -ref.King
			sg := int8(1)
			if !p.White {
				sg = -1
			}
			f := rng.IntN(8)
			from, to := 8+f, 24+f // the pusher's pawn: second rank -> fourth rank
			if !p.White {
				from, to = 48+f, 32+f
			}
			nf := f - 1
			if f == 0 || (f < 7 && rng.IntN(2) == 0) {
				nf = f + 1
			}
			nb := (to/8)*8 + nf // the enemy pawn that could capture en passant
			if p.Sq[from] != 0 || p.Sq[to] != 0 || p.Sq[(from+to)/2] != 0 || p.Sq[nb] != 0 {
				continue
			}
			p.Sq[from], p.Sq[nb] = sg*ref.Pawn, -sg*ref.Pawn
			for i, n := 0, 1+rng.IntN(3); i < n; i++ {
				if p.Sq[sqs[2+i]] == 0 {
					p.Sq[sqs[2+i]] = sg * pick(rng, []int8{ref.Bishop, ref.Rook, ref.Queen, ref.Queen})
				}
			}
			if rng.IntN(2) == 0 && p.Sq[sqs[6]] == 0 {
				p.Sq[sqs[6]] = -sg * pick(rng, []int8{ref.Knight, ref.Bishop, ref.Rook})
			}
			if p.Valid() != nil {
				continue
			}
			push := ref.Move{From: from, To: to}
			if !p.IsLegal(push) {
				continue
			}
			g := ref.NewGame(p)
			g.Push(push)
			if g.Cur().EP < 0 || len(g.Cur().Legal()) == 0 {
				continue
			}
			if g.Cur().EPCapturable() && rng.IntN(6) != 0 {
				continue // mostly the cases in which the capture is not legal
			}
			n := pick(rng, []int{4, 8, 8, 8, 7, 9, 12})
			if shuffle(rng, g, n) == 0 {
				continue
			}
			return mk(p.FEN(), g, class)
		}
		return Root{FEN: ref.StartFEN, Tag: "start"}
	case "tiny-tree":
		// roots whose whole search tree is tiny: a search reaches the ply cap in
		// a few tens of thousands of nodes and then ends by itself
		return Root{FEN: pick(rng, tinyTreeFENs), Tag: class}
	case "long-game":
		// a game of many hundred plies: a position command of several kilobytes,
		// a hash history that outgrows its initial capacity
		g := ref.NewGame(ref.MustFEN(ref.StartFEN))
		playout(rng, g, 700+rng.IntN(500), pick(rng, []string{"reversible", ""}))
		return mk(ref.StartFEN, g, class)
	case "endgame":
		r := randomEndgame(rng)
		g := ref.NewGame(ref.MustFEN(r.FEN))
		playout(rng, g, rng.IntN(4), "")
		return mk(r.FEN, g, class)
	case "captures":
		fen := pick(rng, benchFENs)
		g := ref.NewGame(ref.MustFEN(fen))
		playout(rng, g, 2+rng.IntN(20), "captures")
		return mk(fen, g, class)
	case "promo-race":
		fen := pick(rng, []string{
			"8/P6k/8/8/8/8/p6K/8 w - - 0 1",
			"8/1P3k2/8/8/8/8/2p2K2/8 b - - 0 1",
			"4k3/PPP5/8/8/8/8/ppp5/4K3 w - - 0 1",
			"r3k3/1P6/8/8/8/8/6p1/4K2R w K - 0 1",
		})
		g := ref.NewGame(ref.MustFEN(fen))
		playout(rng, g, rng.IntN(5), "pawns")
		return mk(fen, g, class)
	}
	return Root{FEN: ref.StartFEN, Tag: "start"}
}
