package sim

import (
	"bufio"
	"encoding/json"
	"fmt"
	"os"
	"runtime"
	"strings"
	"testing"
	"testing/synctest"
	"time"
)

// TestMain dispatches: VERIF_MODE=driver runs the check driver (no tests);
// otherwise the ordinary test runner (the worker is TestWorker).
func TestMain(m *testing.M) {
	if os.Getenv("VERIF_MODE") == "driver" {
		os.Exit(driverMain(os.Args[1:]))
	}
	os.Exit(m.Run())
}

// bubble runs f inside a fresh synctest bubble and reports a panic of the
// bubble machinery (e.g. goroutines left blocked at the end) as a string.
func bubble(t *testing.T, f func()) (leak string) {
	defer func() {
		if r := recover(); r != nil {
			leak = fmt.Sprint(r)
		}
	}()
	synctest.Test(t, func(t *testing.T) { f() })
	return ""
}

// execCase runs one case and evaluates every oracle that applies to it.
func execCase(t *testing.T, rc *RunCase, rngForGen func() chooser, keep bool, deadline func() bool) *RunResult {
	rr := &RunResult{Type: "run", Run: rc.Run, Seed: rc.Seed, Leg: rc.Leg, Stats: map[string]int64{}}
	switch {
	case rc.Search != nil:
		var out *SearchOutcome
		leak := bubble(t, func() { out = RunSearchScenario(rc.Search, keep, deadline) })
		if out == nil {
			rr.Violations = append(rr.Violations, harnessViolation("bubble", leak))
			return rr
		}
		rr.Violations, rr.SimUS, rr.Stats = out.Violations, out.SimUS, out.Stats
		rr.History = out.History
		rr.sigs = out.Sigs
		if leak != "" {
			rr.Violations = append(rr.Violations, harnessViolation("bubble-end", leak))
			rr.abandoned = true
		}
	case rc.C14 != nil:
		cs := buildC14Scenario(rc.C14, rc.C14Real)
		var out *UCIOutcome
		leak := bubble(t, func() { out = RunUCIScenario(cs.UCI, nil, true) })
		if out == nil {
			rr.Violations = append(rr.Violations, harnessViolation("bubble", leak))
			return rr
		}
		vs, wins := monitorUCI(cs.UCI, out)
		v14, obs := monitorC14(cs, out, wins)
		rr.Violations = append(vs, v14...)
		rr.SimUS, rr.Stats = out.SimUS, out.Stats
		rr.Stats["c14_cases"] = int64(len(obs))
		for _, c := range rc.C14 {
			if c.Lag > 0 && !rc.C14Real {
				rr.Stats["probe_go_written_to_lagging_gui"]++
			}
		}
		if rc.GridSlice > 0 && len(obs) == len(rc.C14) {
			rr.Stats["c14_grid_cases"] = int64(len(obs))
			rr.gridSlice = rc.GridSlice
		}
		for _, o := range obs {
			rr.sigs = append(rr.sigs, hash64(fmt.Sprintf("%d/%d/%d/%v/%v", o.Case.Own, o.Case.OwnInc, o.Case.MoveTime, o.Case.HasInc, o.Case.Ponder)))
			if o.ByTimer {
				rr.Stats["fault_hard_timer_fired"]++
			}
			if o.Case.Ponder {
				rr.Stats["fault_ponderhit"]++
			}
			if o.Case.Lag > 0 && !rc.C14Real {
				rr.Stats["fault_gui_behind_with_reading_at_go"]++
			}
			if o.Case.Debug {
				rr.Stats["probe_debug_on"]++
			}
			if o.Case.EOFAfterUS > 0 {
				rr.Stats["fault_input_closed_during_timed_search"]++
			}
			if o.Case.MovesToGo > 0 {
				rr.Stats["probe_movestogo_reported"]++
			}
			switch {
			case o.Case.MoveTime > 0:
				rr.Stats["probe_movetime"]++
			case o.Case.Own <= c14Margin():
				rr.Stats["probe_at_most_margin_left"]++
			case o.HUS == (o.Case.Own-c14Margin())*1000:
				rr.Stats["probe_deadline_at_remaining_minus_margin"]++
			case o.HUS == c14Margin()*1000:
				rr.Stats["probe_deadline_equals_margin"]++
			default:
				rr.Stats["probe_unclamped"]++
			}
		}
		if keep {
			rr.History = eventsText(out.Events)
			for _, o := range obs {
				rr.History = append(rr.History, fmt.Sprintf("OBS %+v", o))
			}
		}
		rr.nontrivial = len(obs) > 0
		if leak != "" {
			rr.Violations = append(rr.Violations, Violation{Property: "C13", Kind: "goroutine-leak", Detail: leak})
			rr.abandoned = true
		}
	case rc.UCI != nil && rc.UCITwins > 0:
		var a *UCIOutcome
		var twins []*UCIOutcome
		leak := bubble(t, func() {
			a, twins = RunUCITwins(rc.UCI, func(w *uciWorld) chooser {
				if rngForGen != nil {
					return rngForGen()
				}
				return &replayChooser{steps: rc.UCI.Steps}
			}, rc.UCITwins)
		})
		if a == nil || len(twins) != rc.UCITwins {
			rr.Violations = append(rr.Violations, harnessViolation("bubble", leak))
			return rr
		}
		if rngForGen != nil {
			rc.UCI.Steps = a.Steps
		}
		vs, _ := monitorUCI(rc.UCI, a)
		rr.Violations = vs
		rr.SimUS, rr.Stats = a.SimUS, a.Stats
		uciReach(a, rr)
		rr.nontrivial = true
		la := outLines(a)
		for ti, tw := range twins {
			tv, _ := monitorUCI(rc.UCI, tw)
			rr.Violations = append(rr.Violations, tv...)
			lt := outLines(tw)
			rr.Stats["twin_comparisons"]++
			for i := 0; i < len(la) || i < len(lt); i++ {
				var x, y string
				if i < len(la) {
					x = la[i]
				}
				if i < len(lt) {
					y = lt[i]
				}
				if x != y {
					rr.Violations = append(rr.Violations, Violation{Property: "C08", Kind: "uci-twin-output", Step: i,
						Detail: fmt.Sprintf("driver alone and driver twin%d (same commands, same search quanta, interleaved with another engine instance) differ at output line %d: %q vs %q", ti, i, x, y)})
					break
				}
			}
		}
		if keep {
			rr.History = eventsText(a.Events)
			for ti, tw := range twins {
				rr.History = append(rr.History, fmt.Sprintf("--- twin %d", ti))
				rr.History = append(rr.History, eventsText(tw.Events)...)
			}
		}
		if leak != "" {
			rr.Violations = append(rr.Violations, Violation{Property: "C13", Kind: "goroutine-leak", Detail: "end of bubble: " + leak})
			rr.abandoned = true
		}
	case rc.UCI != nil:
		var out *UCIOutcome
		var ch chooser
		if rngForGen != nil {
			ch = rngForGen()
		}
		leak := bubble(t, func() { out = RunUCIScenario(rc.UCI, ch, true) })
		if out == nil {
			rr.Violations = append(rr.Violations, harnessViolation("bubble", leak))
			return rr
		}
		if ch != nil {
			rc.UCI.Steps = out.Steps
		}
		vs, _ := monitorUCI(rc.UCI, out)
		rr.Violations = vs
		rr.SimUS, rr.Stats = out.SimUS, out.Stats
		uciReach(out, rr)
		if keep {
			rr.History = eventsText(out.Events)
		}
		if leak != "" {
			rr.Violations = append(rr.Violations, Violation{Property: "C13", Kind: "goroutine-leak", Detail: "end of bubble: " + leak})
			rr.abandoned = true
		}
	}
	return rr
}

func eventsText(ev []Event) []string {
	out := make([]string, len(ev))
	for i, e := range ev {
		out[i] = fmt.Sprintf("%d t=%dus %s n=%d %q", e.Seq, e.T, e.Kind, e.N, e.Data)
	}
	return out
}

// uciReach computes the run signature and the fired-fault counters of a
// uci-world history.
func uciReach(out *UCIOutcome, rr *RunResult) {
	var sb strings.Builder
	searching, pend := false, false
	polls := int64(0)
	for _, e := range out.Events {
		switch e.Kind {
		case "GOCALL":
			searching, polls = true, 0
			rr.Stats["searches"]++
		case "GORET":
			searching = false
		case "WOFFER":
			pend = true
		case "OUT":
			pend = false
		case "RUN":
			polls += e.N
			rr.Stats["polls_granted"] += e.N
		}
		kw := ""
		if e.Kind == "IN" || e.Kind == "OUT" {
			kw = firstToken(e.Data)
		}
		switch e.Kind {
		case "IN":
			if searching && (kw == "go" || kw == "position") {
				// written behind a stop without waiting for the bestmove
				rr.Stats["fault_"+kw+"_queued_behind_unwinding_search"]++
				rr.nontrivial = true
			}
			if searching {
				switch kw {
				case "stop":
					rr.Stats["fault_stop_in_search"]++
					rr.nontrivial = true
				case "quit":
					rr.Stats["fault_quit_in_search"]++
					rr.nontrivial = true
				case "isready":
					rr.Stats["fault_isready_in_search"]++
					rr.nontrivial = true
				case "ponderhit":
					rr.Stats["fault_ponderhit_in_search"]++
					rr.nontrivial = true
				}
			} else if kw == "stop" || kw == "ponderhit" {
				rr.Stats["fault_"+kw+"_after_search_end"]++
			}
		case "EOF":
			if searching {
				rr.Stats["fault_eof_in_search"]++
				rr.nontrivial = true
			}
		case "TICK":
			if searching && e.N >= 1_000_000 {
				rr.Stats["fault_clock_jump_in_search"]++
			}
			if pend {
				rr.Stats["fault_writer_stalled_us"] += e.N
			}
		case "WRITE-ERROR":
			rr.Stats["fault_write_error"]++
			rr.nontrivial = true
		case "STUBSTOP":
			rr.Stats["stub_stopped"]++
		case "STUBSELF":
			rr.Stats["stub_self_ended"]++
		case "GUIWRITE":
			if !strings.HasSuffix(e.Data, "\n") {
				rr.Stats["fault_fragmented_line"]++
			}
		case "CLEAR":
			rr.Stats["fault_clear"]++
		case "RESIZE":
			rr.Stats["fault_resize"]++
		}
		if e.Kind == "READ" || e.Kind == "GUIWRITE" || e.Kind == "TICK" || e.Kind == "RUN" {
			continue
		}
		phase := "idle"
		if searching {
			phase = fmt.Sprintf("s%d", min(9, int(polls/500)))
		}
		fmt.Fprintf(&sb, "%s/%s/%s/%v;", e.Kind, kw, phase, pend)
	}
	// searches that blocked on a full output channel, and hard-timer aborts
	for _, c := range out.Calls {
		if c.Aborted {
			rr.Stats["searches_aborted"]++
		}
	}
	rr.sigs = []uint64{hash64(sb.String())}
}

// TestWorker is the worker process: it reads the job from VERIF_JOB and
// writes JSON lines to VERIF_OUT.
func TestWorker(t *testing.T) {
	js := os.Getenv("VERIF_JOB")
	if js == "" {
		t.Skip("not a worker invocation")
	}
	var job Job
	if err := json.Unmarshal([]byte(js), &job); err != nil {
		t.Fatalf("bad VERIF_JOB: %v", err)
	}
	writerNoBlock = job.NoBlockWriter
	outF, err := os.Create(os.Getenv("VERIF_OUT"))
	if err != nil {
		t.Fatal(err)
	}
	defer outF.Close()
	w := bufio.NewWriter(outF)
	defer w.Flush()
	emit := func(v any) {
		b, _ := json.Marshal(v)
		w.Write(b)
		w.WriteByte('\n')
		w.Flush()
	}
	var cur *os.File
	if job.CurPath != "" {
		cur, _ = os.Create(job.CurPath)
		defer cur.Close()
	}
	announce := func(rc *RunCase) {
		if cur != nil {
			cur.Truncate(0)
			cur.Seek(0, 0)
			b, _ := json.Marshal(rc)
			cur.Write(b)
			cur.Write([]byte("\n"))
		}
	}

	if job.Replay != "" {
		data, err := os.ReadFile(job.Replay)
		if err != nil {
			t.Fatal(err)
		}
		var rf ReplayFile
		if err := json.Unmarshal(data, &rf); err != nil {
			t.Fatalf("bad replay file: %v", err)
		}
		rc := rf.Case
		writerNoBlock = writerNoBlock || rc.NoBlockWriter
		announce(rc)
		wd := time.AfterFunc(60*time.Second, func() {
			buf := make([]byte, 1<<22)
			n := runtime.Stack(buf, true)
			emit(map[string]any{"type": "hang", "run": rc.Run, "seed": rc.Seed, "leg": rc.Leg, "limit_s": 60.0, "stacks": string(buf[:n])})
			os.Exit(3)
		})
		rr := execCase(t, rc, nil, true, nil)
		wd.Stop()
		rr.Case = rc
		rr.HistHash = sha(rr.History...)
		emit(rr)
		emit(WorkerSummary{Type: "summary", Runs: 1, Stats: rr.Stats})
		return
	}

	start := time.Now()
	deadline := func() bool { return job.BudgetS > 0 && time.Since(start).Seconds() > job.BudgetS }
	sum := WorkerSummary{Type: "summary", Worker: job.Worker, Stats: map[string]int64{}, LegRuns: map[string]int{}}
	gridSeen := map[int]bool{}
	nontrivial := map[uint64]struct{}{}
	all := map[uint64]struct{}{}
	thorough := job.Tier == "thorough"
	for k := job.SkipK; ; k++ {
		if job.MaxRuns > 0 && k >= job.MaxRuns {
			break
		}
		if deadline() {
			break
		}
		run := job.FirstRun + uint64(job.Worker) + uint64(k)*uint64(job.Workers)
		seed := mixSeed(job.Master, job.Property, run)
		rc, rng := generateCase(job.Property, job.Tier, run, seed)
		rc.NoBlockWriter = writerNoBlock
		if job.NoLag {
			for i := range rc.C14 {
				rc.C14[i].Lag, rc.C14[i].LagUS = 0, 0
			}
		}
		announce(rc)
		// watchdog on the real clock (this goroutine is outside every bubble):
		// a run that neither finishes nor becomes quiescent is dumped and ends
		// the process; the driver decides whose goroutine was spinning
		limit := 60 * time.Second
		if thorough {
			limit = 300 * time.Second
		}
		wd := time.AfterFunc(limit, func() {
			buf := make([]byte, 1<<22)
			n := runtime.Stack(buf, true)
			emit(map[string]any{"type": "hang", "run": run, "seed": seed, "leg": rc.Leg, "limit_s": limit.Seconds(), "stacks": string(buf[:n])})
			os.Exit(3)
		})
		var gen func() chooser
		if rc.UCICfg != nil {
			gen = func() chooser {
				g := newUCIGen(rng, *rc.UCICfg, rc.UCI)
				if cur != nil {
					return &announcingChooser{inner: g, f: cur}
				}
				return g
			}
		}
		rr := execCase(t, rc, gen, job.Hashes, deadline)
		wd.Stop()
		if job.Hashes {
			rr.HistHash = sha(rr.History...)
			rr.History = nil
		}
		sum.Runs++
		sum.LegRuns[rc.Leg]++
		if rr.gridSlice > 0 {
			gridSeen[rr.gridSlice-1] = true
		}
		sum.SimS += float64(rr.SimUS) / 1e6
		for k, v := range rr.Stats {
			sum.Stats[k] += v
		}
		if len(sum.Seeds) < 4 {
			sum.Seeds = append(sum.Seeds, seed)
		}
		incon := false
		for _, v := range rr.Violations {
			if v.Property == "HARNESS" {
				incon = true
			}
		}
		if incon {
			sum.Inconclusive++
		}
		for _, s := range rr.sigs {
			all[s] = struct{}{}
			if rr.nontrivial || rc.Search != nil {
				if !thorough || s%8 == 0 {
					nontrivial[s] = struct{}{}
				}
			}
		}
		if len(rr.Violations) > 0 || job.Hashes {
			rr.Case = rc
			rr.Stats = nil
			emit(rr)
		}
		if len(sum.Samples) < 2 && len(rr.Violations) == 0 && (rr.nontrivial || rc.Search != nil) && k >= 1 {
			// a complete scenario, as a sample of what the runs look like
			b, _ := json.Marshal(rc)
			if len(b) < 20000 {
				sum.Samples = append(sum.Samples, b)
			}
		}
		if k%64 == 0 {
			runtime.GC()
		}
		if rr.abandoned {
			// goroutines of the driver under test are still blocked in the bubble
			// that just ended: do not run further bubbles in this process
			sum.Restart, sum.NextK = true, k+1
			break
		}
	}
	sum.WallS = time.Since(start).Seconds()
	for s := range nontrivial {
		sum.Sigs = append(sum.Sigs, s)
	}
	sum.AllSigs = len(all)
	for k := range gridSeen {
		sum.GridSlices = append(sum.GridSlices, k)
	}
	if job.Property == "C14" {
		sum.GridTotal = (len(c14Grid()) + 29) / 30
	}
	emit(sum)
}

// announcingChooser streams the steps of an online-generated session to the
// sidecar file before they are applied, so that the parent can rebuild the
// scenario if this process dies in the middle of one.
type announcingChooser struct {
	inner chooser
	f     *os.File
	stubs int
}

func (a *announcingChooser) next(w *uciWorld) (UStep, bool) {
	st, ok := a.inner.next(w)
	for ; a.stubs < len(w.sc.Stubs); a.stubs++ {
		b, _ := json.Marshal(map[string]any{"stub": w.sc.Stubs[a.stubs]})
		a.f.Write(append(b, '\n'))
	}
	if ok {
		b, _ := json.Marshal(map[string]any{"step": st})
		a.f.Write(append(b, '\n'))
	}
	return st, ok
}
